#!/usr/bin/env python3
"""Translator: regenerates lean/SlicecVerif/Gen/*.lean from the Rust source text of the repository.

Only fragments whose syntax is regular enough are translated; each becomes Lean *data* over which the
property theorems are stated, so that changing a table row re-opens the proofs. An anchor or fragment
that is missing raises ExtractionError, which the check reports as a broken obligation.

usage: extract.py <repo> <gen-dir> [table ...]      (no table = all)
prints one line per table: TABLE <name> rows=<n> sha=<sha1 of the generated file>
"""
import hashlib
import os
import re
import sys

sys.path.insert(0, os.path.dirname(os.path.abspath(__file__)))
import rustcanon  # noqa: E402


class ExtractionError(Exception):
    def __init__(self, table, file, reason):
        super().__init__(f"{table}: {file}: {reason}")
        self.table, self.file, self.reason = table, file, reason


CHAR_LITERAL_AT = re.compile(r"'(?:\\u\{[0-9a-fA-F]+\}|\\x[0-9a-fA-F]{2}|\\.|[^'\\\n])'")
RAW_STRING_AT = re.compile(r'b?r(#*)"')


def strip_comments(src):
    """remove // and /* */ comments and keep string and character literals intact. A raw string (r"..", r#".."#, br"..") is rewritten
    as an ordinary string literal with the same content (`r"/\\"` becomes `"/\\\\"`), so that the scanners below meet one kind of string only"""
    out = []
    i, n = 0, len(src)
    while i < n:
        c = src[i]
        if src.startswith("//", i):
            j = src.find("\n", i)
            i = n if j < 0 else j
        elif src.startswith("/*", i):
            depth, j = 1, i + 2                     # block comments nest
            while j < n and depth:
                if src.startswith("/*", j):
                    depth, j = depth + 1, j + 2
                elif src.startswith("*/", j):
                    depth, j = depth - 1, j + 2
                else:
                    j += 1
            i = j
        elif c == '"':
            j = i + 1
            while j < n and src[j] != '"':
                j += 2 if src[j] == "\\" else 1
            out.append(src[i:j + 1])
            i = j + 1
        elif c in "br" and RAW_STRING_AT.match(src, i) and not (i > 0 and (src[i - 1].isalnum() or src[i - 1] == "_")):
            m = RAW_STRING_AT.match(src, i)
            end = src.find('"' + m.group(1), m.end())
            end = n if end < 0 else end
            out.append('"' + src[m.end():end].replace("\\", "\\\\").replace('"', '\\"') + '"')
            i = end + 1 + len(m.group(1))
        elif c == "'" and CHAR_LITERAL_AT.match(src, i):
            j = CHAR_LITERAL_AT.match(src, i).end()
            out.append(src[i:j])
            i = j
        else:
            out.append(c)
            i += 1
    return "".join(out)


def read(repo, rel, table):
    p = os.path.join(repo, rel)
    if not os.path.exists(p):
        raise ExtractionError(table, rel, "file missing")
    return strip_comments(open(p, encoding="utf-8").read())


def code_chars(src, start=0, end=None):
    """(index, character) of every character of src[start:end] that is code, i.e. outside string and character literals"""
    i, n = start, len(src) if end is None else end
    while i < n:
        ch = src[i]
        if ch == '"':
            j = i + 1
            while j < n and src[j] != '"':
                j += 2 if src[j] == "\\" else 1
            i = j + 1
        elif ch == "'" and CHAR_LITERAL_AT.match(src, i):
            i = CHAR_LITERAL_AT.match(src, i).end()
        else:
            yield i, ch
            i += 1


def block_after(src, start_idx, open_ch="{", close_ch="}"):
    """text of the balanced block starting at the first open_ch at/after start_idx"""
    i = src.find(open_ch, start_idx)
    if i < 0:
        return None
    depth, j = 0, i
    in_str = False
    while j < len(src):
        ch = src[j]
        if in_str:
            if ch == "\\":
                j += 1
            elif ch == '"':
                in_str = False
        elif ch == '"':
            in_str = True
        elif ch == "'" and CHAR_LITERAL_AT.match(src, j):
            j = CHAR_LITERAL_AT.match(src, j).end() - 1       # '{', '}', '"', '\'' are characters, not delimiters (lifetimes don't match)
        elif ch == open_ch:
            depth += 1
        elif ch == close_ch:
            depth -= 1
            if depth == 0:
                return src[i + 1:j]
        j += 1
    return None


def _fn_items(src, name):
    """every `fn <name>` of src that has a body, as (brace depth of the item, parameter text, body); a trait method declaration
    `fn name(..);` has no body and is not an item"""
    depth_at, depth = {}, 0
    for i, ch in code_chars(src):
        depth_at[i] = depth
        if ch == "{":
            depth += 1
        elif ch == "}":
            depth -= 1
    out = []
    for m in re.finditer(r"\bfn\s+" + re.escape(name) + r"\b", src):
        if m.start() not in depth_at:
            continue                                  # inside a string literal
        params = block_after(src, m.end(), "(", ")")
        if params is None:
            continue
        k = src.find("(", m.end()) + len(params) + 2
        # what follows the parameter list: `-> T`, `where ..`, then `{` (a body) or `;` (a declaration)
        nest, opener = 0, None
        for i, ch in code_chars(src, k):
            if ch in "([":
                nest += 1
            elif ch in ")]":
                nest -= 1
            elif nest == 0 and ch in "{;":
                opener = i if ch == "{" else None
                break
        if opener is None:
            continue
        body = block_after(src, opener)
        if body is not None:
            out.append((depth_at[m.start()], params, body))
    return out


def fn_item(src, name, table, rel, impl_pattern=None):
    """(parameter text, body) of `fn <name>`. A function name need not be unique in its file (`new`, `create`, `apply`, `from`,
    `kind`, ..): with `impl_pattern` (a regular expression for what stands between `impl<..>` and the `{`, e.g. `Ast`,
    `Element\\s+for\\s+Primitive`) the function is looked up among the methods of that impl block, whichever comes first in the file;
    without it a name that occurs several times means the free function (brace depth 0)"""
    if impl_pattern is not None:
        rx = re.compile(r"\bimpl\b\s*(?:<[^{;]*?>\s*)?" + impl_pattern + r"\s*(?:<[^{;]*?>\s*)?(?:\bwhere\b[^{;]*)?\{")
        blocks = [block_after(src, im.end() - 1) for im in rx.finditer(src)]
        if not blocks:
            raise ExtractionError(table, rel, f"`impl {impl_pattern}` not found (looking for fn {name})")
        for blk in blocks:
            items = [it for it in _fn_items(blk or "", name) if it[0] == 0]
            if items:
                return items[0][1], items[0][2]
        raise ExtractionError(table, rel, f"fn {name} not found in `impl {impl_pattern}`")
    items = _fn_items(src, name)
    if not items:
        raise ExtractionError(table, rel, f"fn {name} not found" if not re.search(r"\bfn\s+" + re.escape(name) + r"\b", src)
                              else f"body of fn {name} not found")
    if len(items) > 1:
        free = [it for it in items if it[0] == 0]
        if len(free) != 1:
            raise ExtractionError(table, rel, f"fn {name} is defined {len(items)} times in this file and it is not said which impl is meant")
        items = free
    return items[0][1], items[0][2]


def fn_body_in_impl(src, impl_pattern, name, table, rel):
    return fn_item(src, name, table, rel, impl_pattern)[1]


def fn_body(src, name, table, rel, impl_pattern=None):
    return fn_item(src, name, table, rel, impl_pattern)[1]


def fn_params(src, name, table, rel, impl_pattern=None):
    """names bound by the parameter list of `fn <name>`, in order (`self` is not a name)"""
    return rustcanon.param_names(fn_item(src, name, table, rel, impl_pattern)[0])


def inline_self_calls(body, src, impl_pattern, table, rel, keep=(), depth=3):
    """body with every call `self.<helper>(..)` / `Self::<helper>(..)` of a method of the same impl replaced by `{ <body of helper> }`,
    in place (the textual order of the statements is the order of evaluation), `keep` excepted and recursively up to `depth` levels:
    a function split into private helpers still prints the same things in the same order. The helper's parameters keep their own
    names, so this serves shape tests that look at literals and call sequences, not at data flow"""
    if depth == 0:
        return body
    out, i = [], 0
    for m in re.finditer(r"\b(?:self\.|Self::)(\w+)\s*\(", body):
        if m.start() < i or m.group(1) in keep:
            continue
        try:
            helper = fn_item(src, m.group(1), table, rel, impl_pattern)[1]
        except ExtractionError:
            continue                                   # not a method of this impl (a field that is called, a trait method, ..)
        args = block_after(body, m.end() - 1, "(", ")")
        if args is None:
            continue
        end = m.end() + len(args) + 1
        out.append(body[i:m.start()])
        out.append("{" + inline_self_calls(helper, src, impl_pattern, table, rel, tuple(keep) + (m.group(1),), depth - 1) + "}")
        i = end
    out.append(body[i:])
    return "".join(out)


def rename_locals(body, mapping, table, rel, where):
    """body with the locals `old` of mapping {old: new} called `new`: the shape tests of an extractor are written with the names the
    code had when they were written; the names in use are read from the code (by what they are bound to) and mapped back first"""
    blank = re.sub(r'"(?:[^"\\]|\\.)*"', '""', body)
    for old, new in mapping.items():
        if old != new and re.search(r"(?<![\w.:])" + re.escape(new) + r"\b(?!\s*::)", blank):
            raise ExtractionError(table, rel, f"{where}: cannot give `{old}` its canonical name `{new}` (that name is in use)")
    for old, new in mapping.items():
        if old != new:
            body = re.sub(r"(?<![\w.:])" + re.escape(old) + r"\b(?!\s*::)", "\x00" + new, body)
    return body.replace("\x00", "")


def local_bound_to(body, rhs_regex, what, table, rel, mutable=None):
    """name of the local that `let [mut] <name> [: T] = <rhs_regex>` binds in body (names of locals are read, never assumed)"""
    mut = r"(?:mut\s+)?" if mutable is None else (r"mut\s+" if mutable else "")
    m = re.search(r"\blet\s+" + mut + r"(\w+)\s*(?::[^=;]+)?=\s*" + rhs_regex, body)
    if not m:
        raise ExtractionError(table, rel, f"{what} not found")
    return m.group(1)


WIDTH = {"i8": 1, "u8": 1, "i16": 2, "u16": 2, "i32": 4, "u32": 4, "i64": 8, "u64": 8}

INT_LIT = r"(?:0b[01_]+|0x[0-9a-fA-F_]+|0o[0-7_]+|\d[\d_]*)(?:[iu](?:8|16|32|64|128|size))?"
INT_OR_CONST = r"(?:" + INT_LIT + r"|(?:Self::)?[A-Z][A-Z0-9_]*)"


def int_or_const(src, tok, table, rel, where, body=""):
    """value of `tok`: an integer literal (`2`, `0b11`, `0x3`, `3u8`), or the name of a constant `const NAME: <int type> = <literal>;`
    declared once in the function or anywhere in the file (a magic number given a name is still that number)"""
    tok = tok.strip()
    if re.fullmatch(INT_LIT, tok):
        return int(re.sub(r"[iu](?:8|16|32|64|128|size)$", "", tok).replace("_", ""), 0)
    name = tok[6:] if tok.startswith("Self::") else tok
    decls = re.findall(r"\bconst\s+" + re.escape(name) + r"\s*:\s*[iu](?:8|16|32|64|128|size)\s*=\s*(-?\s*" + INT_LIT + r")\s*;", body) \
        or re.findall(r"\bconst\s+" + re.escape(name) + r"\s*:\s*[iu](?:8|16|32|64|128|size)\s*=\s*(-?\s*" + INT_LIT + r")\s*;", src)
    if len(decls) != 1:
        raise ExtractionError(table, rel, f"{where}: `{tok}` is neither an integer literal nor a constant declared (once) with a literal value")
    lit = re.sub(r"\s+", "", decls[0])
    v = int_or_const(src, lit.lstrip("-"), table, rel, where)
    return -v if lit.startswith("-") else v


def gen_varint_arms(repo):
    T = "VarintArms"
    rel = "slice-codec/src/encoding.rs"
    src = read(repo, rel, T)

    def enc_body(fn):
        """body of encode_var[u]int with its locals under the names the tests below use: the integer as `value` (the parameter, or the
        local bound to `<parameter>.into()`), `let <s> = value << n` as `shifted_value`, the scrutinee of the range match as `required_bits`"""
        body = fn_body(src, fn, T, rel, r"Encoder")
        params = fn_params(src, fn, T, rel, r"Encoder")
        if len(params) != 1:
            raise ExtractionError(T, rel, f"{fn}: one parameter (the integer) expected, found {params}")
        vm = re.search(r"\blet\s+(\w+)\s*(?::\s*\w+\s*)?=\s*" + re.escape(params[0]) + r"\.into\(\)\s*;", body)
        if vm:                                      # from here on the integer is the converted local (which may shadow the parameter)
            body = rename_locals(body[vm.end():], {vm.group(1): "value"}, T, rel, fn)
        else:
            body = rename_locals(body, {params[0]: "value"}, T, rel, fn)
        mapping = {}
        sm = re.search(r"\blet\s+(\w+)\s*(?::\s*\w+\s*)?=\s*value\s*<<\s*" + INT_OR_CONST + r"\s*;", body)
        if sm:
            mapping[sm.group(1)] = "shifted_value"
        rm = re.search(r"\bmatch\s+(\w+)\s*\{\s*\d+\s*\.\.=", body)
        if rm:
            mapping[rm.group(1)] = "required_bits"
        return rename_locals(body, mapping, T, rel, fn)

    def enc_arms(fn, native):
        body = enc_body(fn)
        m = re.search(r"match\s+required_bits\s*", body)
        if not m:
            raise ExtractionError(T, rel, f"{fn}: `match required_bits` not found")
        arms_src = block_after(body, m.end())
        sh = re.search(r"shifted_value\s*(?::\s*\w+\s*)?=\s*value\s*<<\s*(" + INT_OR_CONST + r")\s*;", body)
        if not sh:
            raise ExtractionError(T, rel, f"{fn}: `shifted_value = value << n` not found")
        shift = int_or_const(src, sh.group(1), T, rel, fn, body)
        arms = []
        upper_open = None
        for a in [x.strip() for x in arms_src.split("=>")]:
            pass
        for m2 in re.finditer(r"(\d+)\s*\.\.=\s*(\d+)\s*=>\s*self\.encode\(\s*shifted_value(?:\s+as\s+(\w+))?(?:\s*\|\s*(0b[01]+|\d+))?\s*\)", arms_src):
            lo, hi, ty, tag = m2.groups()
            w = WIDTH.get(ty or native)
            if w is None:
                raise ExtractionError(T, rel, f"{fn}: unknown cast type {ty}")
            arms.append((int(lo), int(hi), w, int(tag, 0) if tag else 0))
        m3 = re.search(r"(\d+)\s*\.\.\s*=>\s*Err", arms_src)
        if not m3:
            raise ExtractionError(T, rel, f"{fn}: open `N.. => Err` arm not found")
        upper_open = int(m3.group(1))
        n_arms = len(re.findall(r"=>", arms_src))
        if n_arms != len(arms) + 1:
            raise ExtractionError(T, rel, f"{fn}: {n_arms} arms in source, {len(arms) + 1} understood")
        if not arms or arms[-1][1] + 1 != upper_open:
            raise ExtractionError(T, rel, f"{fn}: error arm does not start right after the last arm")
        return arms, shift

    # required_bits computation must have the modelled shape
    bu = enc_body("encode_varuint")
    if not re.search(r"required_bits\s*=\s*u64::BITS\s*-\s*value\.leading_zeros\(\)", bu):
        raise ExtractionError(T, rel, "encode_varuint: required_bits is not `u64::BITS - value.leading_zeros()`")
    bs = enc_body("encode_varint")
    # modelled: required_bits = i64::BITS - (leading_ones if negative else leading_zeros) + 1. The selection may be written as a
    # `match value.is_negative() { false => …, true => … }` (arms in either order) or as an `if`/`else`, directly or through a local.
    lz, lo = r"value\.leading_zeros\(\)", r"value\.leading_ones\(\)"
    neg, nonneg = r"(?:value\.is_negative\(\)|value\s*<\s*0)", r"(?:!\s*value\.is_negative\(\)|value\s*>=\s*0|value\.is_positive\(\)\s*\|\|\s*value\s*==\s*0)"
    sel = (r"(?:match\s+value\.is_negative\(\)\s*\{\s*(?:false\s*=>\s*" + lz + r"\s*,\s*true\s*=>\s*" + lo + r"|true\s*=>\s*" + lo + r"\s*,\s*false\s*=>\s*" + lz + r")\s*,?\s*\}"
           r"|if\s+" + neg + r"\s*\{\s*" + lo + r"\s*\}\s*else\s*\{\s*" + lz + r"\s*\}"
           r"|if\s+" + nonneg + r"\s*\{\s*" + lz + r"\s*\}\s*else\s*\{\s*" + lo + r"\s*\})")
    direct = re.search(r"required_bits\s*(?::\s*u32\s*)?=\s*i64::BITS\s*-\s*" + sel, bs)
    via = re.search(r"\blet\s+(\w+)\s*(?::\s*u32\s*)?=\s*" + sel + r"\s*;", bs)
    via = via and re.search(r"required_bits\s*(?::\s*u32\s*)?=\s*i64::BITS\s*-\s*" + re.escape(via.group(1)) + r"\s*;", bs)
    n_sel = len(re.findall(r"leading_zeros|leading_ones", bs))
    # the sign bit is added by a separate `required_bits += 1;` or in the same expression: `i64::BITS - <selection> + 1`
    # (`-` and `+` associate to the left: it is `(i64::BITS - <selection>) + 1`, the modelled value)
    direct1 = re.search(r"required_bits\s*(?::\s*u32\s*)?=\s*i64::BITS\s*-\s*" + sel + r"\s*\+\s*1\s*;", bs)
    via1 = re.search(r"\blet\s+(\w+)\s*(?::\s*u32\s*)?=\s*" + sel + r"\s*;", bs)
    via1 = via1 and re.search(r"required_bits\s*(?::\s*u32\s*)?=\s*i64::BITS\s*-\s*" + re.escape(via1.group(1)) + r"\s*\+\s*1\s*;", bs)
    in_one = bool((direct1 or via1) and n_sel == 2 and not re.search(r"required_bits\s*\+=", bs)
                  and len(re.findall(r"\brequired_bits\s*[-+*/|&^]?=(?!=)", bs)) == 1)
    if not in_one and not ((direct or via) and n_sel == 2 and len(re.findall(r"required_bits\s*\+=\s*1\s*;", bs)) == 1
            and len(re.findall(r"\brequired_bits\s*[-+*/|&^]?=(?!=)", bs)) == 2):
        raise ExtractionError(T, rel, "encode_varint: required_bits computation has an unexpected shape")
    sarms, sshift = enc_arms("encode_varint", "i64")
    uarms, ushift = enc_arms("encode_varuint", "u64")
    if sshift != ushift:
        raise ExtractionError(T, rel, "different shifts in encode_varint / encode_varuint")

    rel2 = "slice-codec/src/decoding.rs"
    dsrc = read(repo, rel2, T)

    def dec_arms(fn, shift_re):
        body = fn_body(dsrc, fn, T, rel2, r"Decoder")
        # the decoded integer, under whatever name: `let mut <value> = match self.peek_byte()? & mask { .. };`
        dm = re.search(r"\blet\s+mut\s+(\w+)\s*(?::[^=;]+)?=\s*match\s+self\.peek_byte\(\)\?", body)
        if dm:
            body = rename_locals(body, {dm.group(1): "value"}, T, rel2, fn)
        m = re.search(r"match\s+self\.peek_byte\(\)\?\s*&\s*(" + INT_OR_CONST + r")\s*(?=\{)", body)
        if not m:
            raise ExtractionError(T, rel2, f"{fn}: `match self.peek_byte()? & mask` not found")
        mask = int_or_const(dsrc, m.group(1), T, rel2, fn, body)
        arms_src = block_after(body, m.end())
        rows = []
        for m2 in re.finditer(r"(0b[01]+|\d+)\s*=>\s*(\w+)::decode_from\(self\)\?", arms_src):
            code, ty = m2.groups()
            if ty not in WIDTH:
                raise ExtractionError(T, rel2, f"{fn}: unknown type {ty}")
            rows.append((int(code, 0), WIDTH[ty], ty.startswith("i")))
        sh = re.search(r"value\s*>>=\s*(" + INT_OR_CONST + r")\s*;", body)
        if not sh:
            raise ExtractionError(T, rel2, f"{fn}: `value >>= n` not found")
        if not re.search(r"T::try_from\(value\)", body):
            raise ExtractionError(T, rel2, f"{fn}: `T::try_from(value)` narrowing not found")
        return rows, mask, int_or_const(dsrc, sh.group(1), T, rel2, fn, body)

    srows, smask, sdshift = dec_arms("decode_varint", None)
    urows, umask, udshift = dec_arms("decode_varuint", None)
    if smask != umask or sdshift != udshift:
        raise ExtractionError(T, rel2, "decode_varint / decode_varuint differ in mask or shift")
    tm = re.search(r"const\s+TAG_END_MARKER\s*:\s*i32\s*=\s*(-?\d+)\s*;", dsrc)
    if not tm:
        raise ExtractionError(T, rel2, "TAG_END_MARKER not found")

    def arms(l):
        return "[" + ", ".join(f"⟨{a}, {b}, {c}, {d}⟩" for a, b, c, d in l) + "]"

    def rows(l):
        return "[" + ", ".join(f"({c}, {w}, {'true' if s else 'false'})" for c, w, s in l) + "]"

    text = f"""-- GENERATED by translator/extract.py from slice-codec/src/{{encoding,decoding}}.rs — do not edit.
namespace Slicec.Gen

/-- one arm of `match required_bits {{ lo..=hi => self.encode(shifted as <w bytes> | tag) }}` -/
structure Arm where
  lo : Nat
  hi : Nat
  width : Nat
  tag : Nat
  deriving Repr, DecidableEq

def varintArms : List Arm := {arms(sarms)}
def varuintArms : List Arm := {arms(uarms)}
/-- `match peek_byte & mask {{ code => <w bytes>::decode_from }}` as (code, width, signed) -/
def varintDecode : List (Nat × Nat × Bool) := {rows(srows)}
def varuintDecode : List (Nat × Nat × Bool) := {rows(urows)}
def decodeMask : Nat := {smask}
def decodeShift : Nat := {sdshift}
def encodeShift : Nat := {sshift}
def tagEndMarker : Int := {tm.group(1)}

end Slicec.Gen
"""
    return text, len(sarms) + len(uarms) + len(srows) + len(urows) + 4


def strip_test_modules(src):
    """drop everything that is compiled for tests only: the item (or statement) behind a `#[cfg(test)]` attribute -- `mod x { .. }`,
    `mod x;`, `fn`, `impl`, `struct`, `enum`, `use`, `const`, `static`, `type`, a block -- together with its other attributes; a file
    that starts with `#![cfg(test)]` is test code as a whole"""
    if re.search(r"#!\[cfg\(\s*test\s*\)\]", src):
        return ""
    attr = re.compile(r"\s*#\[[^\]]*\]")
    out, i = [], 0
    for m in re.finditer(r"#\[cfg\(\s*test\s*\)\]", src):
        if m.start() < i:
            continue
        start = m.start()
        while True:                                   # attributes in front of it belong to the same item
            pm = re.search(r"#\[[^\]]*\]\s*$", src[i:start])
            if not pm:
                break
            start = i + pm.start()
        k = m.end()
        while attr.match(src, k):                     # and so do the ones behind it
            k = attr.match(src, k).end()
        depth, end = 0, len(src)
        for j, ch in code_chars(src, k):              # the item ends at its `;` or at the end of its `{ .. }`
            if ch in "([":
                depth += 1
            elif ch in ")]":
                depth -= 1
            elif depth == 0 and ch == ";":
                end = j + 1
                break
            elif depth == 0 and ch == "{":
                blk = block_after(src, j)
                end = j + len(blk) + 2 if blk is not None else len(src)
                break
        out.append(src[i:start])
        i = end
    out.append(src[i:])
    return "".join(out)


PANIC_PAT = re.compile(r"\b(todo!|unimplemented!|panic!|unreachable!|assert!|assert_eq!|assert_ne!)\s*\(|\.unwrap\(\)|\.expect\(")


MIN_OF_ANNOUNCED_AND_REMAINING = re.compile(
    r"(?:(?:usize|core::cmp|std::cmp|cmp)::)?min\((?:length,decoder\.remaining\(\)|decoder\.remaining\(\),length)\)"
    r"|length\.min\(decoder\.remaining\(\)\)|decoder\.remaining\(\)\.min\(length\)")


def reservation_argument(body, upto, arg):
    """whitespace-free argument of a `try_reserve*` call; a plain local name stands for the expression of its (single, immutable)
    `let` binding in front of the call, so that `let capacity = usize::min(..); v.try_reserve_exact(capacity)?` reads like the inline form"""
    arg = re.sub(r"\s+", "", arg)
    for _ in range(3):
        if not re.fullmatch(r"[a-z_]\w*", arg) or arg == "length":
            break
        binds = re.findall(r"\blet\s+(mut\s+)?" + re.escape(arg) + r"\s*(?::\s*usize\s*)?=(?!=)\s*([^;]+);", body[:upto])
        if len(binds) != 1 or binds[0][0]:
            break
        arg = re.sub(r"\s+", "", binds[0][1])
    return arg


def gen_codec_panics(repo):
    T = "CodecPanics"
    sites = []
    base = os.path.join(repo, "slice-codec", "src")
    if not os.path.isdir(base):
        raise ExtractionError(T, "slice-codec/src", "directory missing")
    for dirpath, _, files in sorted(os.walk(base)):
        for fn in sorted(files):
            if not fn.endswith(".rs") or fn.endswith("_tests.rs") or fn == "tests.rs":
                continue
            rel = os.path.relpath(os.path.join(dirpath, fn), repo)
            src = strip_test_modules(read(repo, rel, T))
            for ln, line in enumerate(src.splitlines(), 1):
                for m in PANIC_PAT.finditer(line):
                    sites.append(f"{rel}: {line.strip()[:60]}")
    # the HashMap reservation must be capped by the unread input
    rel = "slice-codec/src/decoding.rs"
    dsrc = read(repo, rel, T)

    def decode_from_of(type_rx, what, container_ctor, container_name):
        """body of `<what>::decode_from` with its locals under the names the tests below are written with: the decoder parameter as
        `decoder`, the local bound to `decoder.decode_varuint()?` as `length`, the container that is filled as `container_name`"""
        m = re.search(r"\bimpl\b\s*(?:<[^{;]*?>\s*)?DecodeFrom\s+for\s+" + type_rx + r"\s*(?:\bwhere\b[^{;]*)?\{", dsrc)
        if not m:
            raise ExtractionError(T, rel, f"{what} DecodeFrom impl not found")
        params, body = fn_item(block_after(dsrc, m.end() - 1) or "", "decode_from", T, rel)
        names = rustcanon.param_names(params)
        if len(names) != 1:
            raise ExtractionError(T, rel, f"{what}::decode_from: one parameter (the decoder) expected, found {names}")
        mapping = {names[0]: "decoder"}
        lm = re.search(r"\blet\s+(\w+)\s*(?::\s*usize\s*)?=\s*" + re.escape(names[0]) + r"\.decode_varuint\(\)\?\s*;", body)
        if not lm:
            raise ExtractionError(T, rel, f"{what}::decode_from: `let <length> = <decoder>.decode_varuint()?;` not found")
        mapping[lm.group(1)] = "length"
        cm = re.findall(r"\blet\s+mut\s+(\w+)\s*(?::[^=;]+)?=\s*" + container_ctor + r"::(?:new|with_capacity)\b", body)
        if len(cm) != 1:
            raise ExtractionError(T, rel, f"{what}::decode_from: one `let mut <container> = {container_ctor}::new()` expected, found {len(cm)}")
        if re.search(r"::with_capacity\b", body):
            raise ExtractionError(T, rel, f"{what}::decode_from allocates through with_capacity: not understood")
        mapping[cm[0]] = container_name
        for old, new in mapping.items():
            if old != new and re.search(r"(?<![\w.:])" + new + r"\b(?!\s*::)", re.sub(r'"(?:[^"\\]|\\.)*"', '""', body)):
                raise ExtractionError(T, rel, f"{what}::decode_from: cannot give `{old}` its canonical name `{new}` (name in use)")
        for old, new in mapping.items():
            body = re.sub(r"(?<![\w.])" + re.escape(old) + r"\b(?!\s*::)", new, body)
        return body

    body = decode_from_of(r"HashMap\s*<\s*K\s*,\s*V\s*>", "HashMap", "HashMap", "map")
    r = re.search(r"map\.try_reserve\(([^;]*)\)\?;", body)
    if not r and re.search(r"\.try_reserve", body):
        raise ExtractionError(T, rel, "HashMap::decode_from reserves, but not on the map it fills: not understood")
    if not r:
        reserve = "announced * 0"  # no reservation at all
    else:
        arg = reservation_argument(body, r.start(), r.group(1))
        if MIN_OF_ANNOUNCED_AND_REMAINING.fullmatch(arg):
            reserve = "min announced remaining"
        elif arg == "length":
            reserve = "announced + remaining * 0"
        else:
            raise ExtractionError(T, rel, f"HashMap reservation argument `{arg}` not understood")
    def q(x):
        return '"' + x.replace("\\", "\\\\").replace('"', '\\"') + '"'
    # sequences: the pre-allocation must be capped by the unread input as well
    vbody = decode_from_of(r"Vec\s*<\s*T\s*>", "Vec", "Vec", "vector")
    r = re.search(r"vector\.try_reserve(?:_exact)?\(([^;]*)\)\?;", vbody)
    if not r and re.search(r"\.try_reserve", vbody):
        raise ExtractionError(T, rel, "Vec::decode_from reserves, but not on the vector it fills: not understood")
    if not r:
        vreserve = "announced * 0"
    else:
        arg = reservation_argument(vbody, r.start(), r.group(1))
        if MIN_OF_ANNOUNCED_AND_REMAINING.fullmatch(arg):
            vreserve = "min announced remaining"
        elif arg == "length":
            vreserve = "announced + remaining * 0"
        else:
            raise ExtractionError(T, rel, f"Vec reservation argument `{arg}` not understood")
    # strings: are the announced bytes read (which fails when they are not there) before memory for them is allocated?
    sbody = decode_from_of(r"String", "String", "Vec", "vector")
    rd = re.search(r"decoder\.read_byte_slice_exact\(length\)\?", sbody)
    rs = re.search(r"vector\.try_reserve(?:_exact)?\(([^;]*)\)\?;", sbody)
    if rs is None:
        raise ExtractionError(T, rel, "String::decode_from no longer reserves through try_reserve*: not understood")
    sarg = reservation_argument(sbody, rs.start(), rs.group(1))
    if rd and rd.start() < rs.start() and sarg == "length":
        sreserve = "if announced ≤ remaining then announced else 0"      # the read fails first when the bytes are not there
    elif MIN_OF_ANNOUNCED_AND_REMAINING.fullmatch(sarg):
        sreserve = "min announced remaining"
    elif sarg == "length":
        sreserve = "announced + remaining * 0"
    else:
        raise ExtractionError(T, rel, f"String reservation argument `{sarg}` not understood")
    text = f"""-- GENERATED by translator/extract.py from slice-codec/src — do not edit.
namespace Slicec.Gen
/-- panic-capable macro / method sites in non-test code of slice-codec -/
def codecPanicSites : List String := [{", ".join(q(x) for x in sites)}]
/-- what `HashMap::decode_from` pre-allocates, as a function of the announced length and the unread bytes -/
def hashMapReserve (announced remaining : Nat) : Nat := {reserve}
/-- elements `Vec::decode_from` pre-allocates -/
def vecReserve (announced remaining : Nat) : Nat := {vreserve}
/-- bytes `String::decode_from` allocates -/
def stringReserve (announced remaining : Nat) : Nat := {sreserve}
end Slicec.Gen
"""
    return text, len(sites) + 1



def gen_keywords(repo):
    T = "Keywords"
    rel = "slicec/src/parsers/slice/lexer.rs"
    src = read(repo, rel, T)
    body = fn_body(src, "check_if_keyword", T, rel, r"Lexer")
    param = (fn_params(src, "check_if_keyword", T, rel, r"Lexer") or ["identifier"])[0]
    m = re.search(r"match\s+" + re.escape(param) + r"\s*(?=\{)", body)
    if not m:
        raise ExtractionError(T, rel, f"`match {param}` (the parameter) not found in check_if_keyword")
    arms = block_after(body, m.end())
    kws = re.findall(r'"([A-Za-z0-9_]+)"\s*=>\s*TokenKind::(\w+)', arms)
    if len(kws) < 10:
        raise ExtractionError(T, rel, "keyword arms not understood")
    n_arms = len(re.findall(r"=>", arms))
    if n_arms != len(kws) + 1:
        raise ExtractionError(T, rel, f"{n_arms} arms in check_if_keyword, {len(kws)} keyword arms + 1 default expected")
    text = "-- GENERATED by translator/extract.py from slicec/src/parsers/slice/lexer.rs — do not edit.\nnamespace Slicec.Gen\n" \
           "/-- `check_if_keyword`: spelling → token kind -/\n" \
           "def sliceKeywords : List (String × String) := [" + ", ".join(f'("{k}", "{t}")' for k, t in kws) + "]\n" \
           "end Slicec.Gen\n"
    return text, len(kws)


def rust_char(lit, table, rel):
    """Rust character literal (plain, backslash escape or unicode escape) -> the character"""
    body = lit[1:-1]
    simple = {"\\\\": "\\", "\\n": "\n", "\\t": "\t", "\\r": "\r", "\\'": "'", "\\0": "\0", '\\"': '"'}
    if len(body) == 1:
        return body
    if body in simple:
        return simple[body]
    m = re.fullmatch(r"\\u\{([0-9a-fA-F]+)\}", body)
    if m:
        return chr(int(m.group(1), 16))
    raise ExtractionError(table, rel, f"character literal {lit} not understood")


def lean_char(c):
    if c == "\\":
        return "'\\\\'"
    if c == "'":
        return "'\\''"
    if 0x20 < ord(c) < 0x7F:
        return "'" + c + "'"
    return "(Char.ofNat %d)" % ord(c)


CHAR_LIT = r"'(?:\\u\{[0-9a-fA-F]+\}|\\.|[^'\\])'"


def gen_plugin_spec(repo):
    """the lexical table of `fn plugin_parser`: escape character, escapable set, the two separators; plus
    shape assertions (look-ahead test of the trailing separator, the second-`=` rejection, the three trims,
    the two emptiness checks) whose disappearance is an extraction failure"""
    T = "PluginSpec"
    rel = "slicec/src/slice_options.rs"
    src = read(repo, rel, T)
    body = fn_body(src, "plugin_parser", T, rel)
    # The shape assertions below are written with the local names the function had when they were written. Local names carry no
    # meaning, so the names in use are discovered from their (unambiguous) defining occurrences and mapped back before matching.
    sigm = re.search(r"\bfn\s+plugin_parser\s*(?:<[^>]*>)?\s*\(\s*(\w+)\s*:\s*&(?:'\w+\s+)?str\s*\)", src)
    roles = {
        "s": sigm.group(1) if sigm else None,
        "char_iter": (re.search(r"\blet\s+mut\s+(\w+)\s*=\s*\w+\.chars\(\)\.peekable\(\)\s*;", body) or [None, None])[1],
        "string_buffer": (re.search(r"\blet\s+mut\s+(\w+)\s*=\s*&mut\s+\w+\s*;", body) or [None, None])[1],
        "plugin_path": (re.search(r"\blet\s+mut\s+\w+\s*=\s*&mut\s+(\w+)\s*;", body) or [None, None])[1],
        "plugin_args": (re.search(r"\b(\w+)\.push\(\s*Default::default\(\)\s*\)", body) or [None, None])[1],
        "state": (re.search(r"\blet\s+mut\s+(\w+)\s*=\s*State::Path\s*;", body) or [None, None])[1],
        "c": (re.search(r"\bwhile\s+let\s+Some\(\s*(\w+)\s*\)\s*=\s*\w+\.next\(\)", body) or [None, None])[1],
        "path": (re.search(r"\blet\s+(\w+)\s*=\s*\w+\.trim\(\)\.to_owned\(\)\s*;", body) or [None, None])[1],
        "args": (re.search(r"\blet\s+(\w+)\s*(?::[^=;]+)?=\s*\w+\s*\.into_iter\(\)", body) or [None, None])[1],
        "arg": (re.search(r"\bfor\s+(\w+)\s+in\s+&\s*\w+\s*\{", body) or [None, None])[1],
    }
    kv = re.search(r"\.map\(\s*\|\s*\(\s*(\w+)\s*,\s*(\w+)\s*\)\s*\|", body)
    if kv:
        roles["key"], roles["value"] = kv.group(1), kv.group(2)
    found = {v: k for k, v in roles.items() if v}
    if len(found) == len([v for v in roles.values() if v]):          # the discovered names are pairwise distinct
        body = re.sub(r"(?<![\w.])(" + "|".join(re.escape(n) for n in sorted(found, key=len, reverse=True)) + r")\b(?!\s*::)",
                      lambda mm: found[mm.group(1)], body) if found else body
    m = re.search(r"match\s+c\s*", body)
    if not m:
        raise ExtractionError(T, rel, "`match c` not found in plugin_parser")
    arms = block_after(body, m.end())
    if arms is None:
        raise ExtractionError(T, rel, "arms of `match c` not found")
    # arm 1: <esc> if matches!(char_iter.peek(), Some(<c1> | <c2> ...)) => push(next)
    m1 = re.search(r"(" + CHAR_LIT + r")\s+if\s+matches!\(\s*char_iter\.peek\(\)\s*,\s*Some\(\s*((?:" + CHAR_LIT + r"\s*\|?\s*)+)\)\s*\)\s*=>\s*\{\s*"
                   r"string_buffer\.push\(char_iter\.next\(\)\.unwrap\(\)\);\s*\}", arms)
    if not m1 or arms[:m1.start()].strip():
        raise ExtractionError(T, rel, "first arm is not `<esc> if matches!(char_iter.peek(), Some(..)) => { string_buffer.push(char_iter.next().unwrap()); }`")
    esc = rust_char(m1.group(1), T, rel)
    escapable = [rust_char(x, T, rel) for x in re.findall(CHAR_LIT, m1.group(2))]
    rest = arms[m1.end():]
    # arm 2: <sep> => { if char_iter.peek().is_some() { push(Default); string_buffer = key; state = Key } }
    m2 = re.match(r"\s*,?\s*(" + CHAR_LIT + r")\s*=>\s*", rest)
    if not m2:
        raise ExtractionError(T, rel, "second arm (argument separator) not found")
    arg_sep = rust_char(m2.group(1), T, rel)
    b2 = block_after(rest, m2.end() - 1)
    if b2 is None or not re.fullmatch(r"\s*if\s+char_iter\.peek\(\)\.is_some\(\)\s*\{\s*plugin_args\.push\(Default::default\(\)\);\s*"
                                      r"string_buffer\s*=\s*&mut\s+plugin_args\.last_mut\(\)\.unwrap\(\)\.0;\s*state\s*=\s*State::Key;\s*\}\s*", b2):
        raise ExtractionError(T, rel, "argument-separator arm has an unexpected shape (look-ahead test / new pair / Key state)")
    rest = rest[rest.find(b2) + len(b2) + 1:]
    # arm 3: <kv> => match state { Path => push(<kv>), Key => { buffer = value; state = Value }, Value => { return Err(..) } }
    m3 = re.match(r"\s*,?\s*(" + CHAR_LIT + r")\s*=>\s*match\s+state\s*", rest)
    if not m3:
        raise ExtractionError(T, rel, "third arm (key/value separator, `match state`) not found")
    kv_sep = rust_char(m3.group(1), T, rel)
    b3 = block_after(rest, m3.end())
    if b3 is None:
        raise ExtractionError(T, rel, "body of `match state` not found")
    mp = re.search(r"State::Path\s*=>\s*string_buffer\.push\((" + CHAR_LIT + r")\)", b3)
    if not mp or rust_char(mp.group(1), T, rel) != kv_sep:
        raise ExtractionError(T, rel, "State::Path arm does not push the key/value separator literally")
    if not re.search(r"State::Key\s*=>\s*\{\s*string_buffer\s*=\s*&mut\s+plugin_args\.last_mut\(\)\.unwrap\(\)\.1;\s*state\s*=\s*State::Value;\s*\}", b3):
        raise ExtractionError(T, rel, "State::Key arm has an unexpected shape")
    if not re.search(r"State::Value\s*=>\s*\{\s*return\s+Err\(\"", b3):
        raise ExtractionError(T, rel, "State::Value arm does not reject the second separator")
    rest = rest[rest.find(b3) + len(b3) + 1:]
    if not re.fullmatch(r"\s*,?\s*_\s*=>\s*string_buffer\.push\(c\)\s*,?\s*", rest):
        raise ExtractionError(T, rel, "default arm is not `_ => string_buffer.push(c)` or there are additional arms")
    if not re.search(r"while\s+let\s+Some\(c\)\s*=\s*char_iter\.next\(\)", body) or not re.search(r"char_iter\s*=\s*s\.chars\(\)\.peekable\(\)", body):
        raise ExtractionError(T, rel, "the loop is not `while let Some(c) = char_iter.next()` over `s.chars().peekable()`")
    # after the loop: three trims, two emptiness checks, three error returns in all
    # the empty-key check rejects when ANY pair of `args` has an empty first component: a loop over the pairs with an early return
    # (`for arg in &args { if arg.0.is_empty() { return Err(..) } }`, the pair possibly destructured as `(key, _)`), or the same
    # test written with `Iterator::any` (`if args.iter().any(|(key, _)| key.is_empty()) { return Err(..) }`)
    empty_key_forms = (
        r"for\s+(?:(?P<a1>\w+)|\(\s*(?P<k1>\w+)\s*,\s*_\w*\s*\))\s+in\s+(?:&\s*args|args\.iter\(\))\s*\{\s*if\s+(?:(?P=a1)\.0|(?P=k1))\.is_empty\(\)\s*\{\s*return\s+Err\(",
        r"if\s+args\.iter\(\)\.any\(\s*\|\s*(?:(?P<a2>\w+)|\(\s*(?P<k2>\w+)\s*,\s*_\w*\s*\))\s*\|\s*(?:(?P=a2)\.0|(?P=k2))\.is_empty\(\)\s*\)\s*\{\s*return\s+Err\(",
    )
    for pat, what in ((r"plugin_path\.trim\(\)", "path trim"), (r"key\.trim\(\)", "key trim"), (r"value\.trim\(\)", "value trim"),
                      (r"if\s+path\.is_empty\(\)\s*\{\s*return\s+Err\(", "empty-path check"),
                      ("|".join("(?:" + f + ")" for f in empty_key_forms), "empty-key check"),
                      (r"Ok\(Plugin\s*\{\s*path\s*,\s*args\s*\}\)", "Ok(Plugin { path, args })")):
        if not re.search(pat, body):
            raise ExtractionError(T, rel, f"{what} not found")
    n_err = len(re.findall(r"return\s+Err\(", body))
    if n_err != 3:
        raise ExtractionError(T, rel, f"{n_err} error returns, 3 understood")
    if re.search(r"\b(assert!|assert_eq!|panic!|unreachable!|todo!|unimplemented!)\s*\(|\.expect\(", body):
        raise ExtractionError(T, rel, "a panic-capable macro is present in plugin_parser")
    text = f"""-- GENERATED by translator/extract.py from slicec/src/slice_options.rs (fn plugin_parser) — do not edit.
namespace Slicec.Gen
/-- the character of the first arm: `{m1.group(1)} if matches!(char_iter.peek(), Some(..))` -/
def pluginEscapeChar : Char := {lean_char(esc)}
/-- the characters a backslash escapes (the alternatives inside `Some(..)`) -/
def pluginEscapable : List Char := [{", ".join(lean_char(c) for c in escapable)}]
/-- the arm that starts a new `(key, value)` pair when more characters follow -/
def pluginArgSep : Char := {lean_char(arg_sep)}
/-- the arm that is matched against `state` (literal in the path, key→value, second one rejected) -/
def pluginKvSep : Char := {lean_char(kv_sep)}
/-- number of `return Err(..)` sites (second separator, empty path, empty key) -/
def pluginErrorSites : Nat := {n_err}
end Slicec.Gen
"""
    return text, len(escapable) + 4



def gen_hash_uses(repo):
    """every method called on a binding / field / parameter whose declaration mentions HashMap or HashSet, in slicec/src"""
    T = "HashUses"
    base = os.path.join(repo, "slicec", "src")
    if not os.path.isdir(base):
        raise ExtractionError(T, "slicec/src", "directory missing")
    uses = []
    decl_pat = re.compile(r"(?:let\s+(?:mut\s+)?|\bmut\s+|\b)([a-z_][a-z0-9_]*)\s*(?::\s*[^=;,\n)]*?)?(?:=\s*[^;\n]*?)?\bHash(?:Map|Set)\b")
    for dirpath, _, files in sorted(os.walk(base)):
        for fn in sorted(files):
            if not fn.endswith(".rs") or fn in ("tests.rs", "verif_hooks.rs"):
                continue
            rel = os.path.relpath(os.path.join(dirpath, fn), repo)
            src = strip_test_modules(read(repo, rel, T))
            names = set()
            for line in src.splitlines():
                if "Hash" not in line or line.lstrip().startswith("use "):
                    continue
                for m in re.finditer(r"\b([a-z_][a-z0-9_]*)\s*:\s*(?:&\s*(?:'\w+\s+)?(?:mut\s+)?)?(?:std::collections::)?Hash(?:Map|Set)\b", line):
                    names.add(m.group(1))
                m = re.search(r"\blet\s+(?:mut\s+)?([a-z_][a-z0-9_]*)\b[^=]*=\s*[^;]*\bHash(?:Map|Set)\b", line)
                if m:
                    names.add(m.group(1))
            if not names and "Hash" in src and not re.search(r"^\s*use .*Hash", src, re.M) is None and re.search(r"Hash(?:Map|Set)", re.sub(r"^\s*use .*$", "", src, flags=re.M)):
                raise ExtractionError(T, rel, "mentions a hash container but no binding was recognised")
            for name in sorted(names):
                for m in re.finditer(r"(?<![A-Za-z0-9_])(?:self\.)?" + re.escape(name) + r"\s*\.\s*([a-z_][a-z0-9_]*)\s*\(", src):
                    uses.append((rel, name, m.group(1)))
                for m in re.finditer(r"\bfor\b[^{;]*\bin\s+&?\s*(?:mut\s+)?(?:self\.)?" + re.escape(name) + r"\b\s*\{", src):
                    uses.append((rel, name, "for-loop"))
    uses = sorted(set(uses))
    if len(uses) < 5:
        raise ExtractionError(T, "slicec/src", "fewer hash-container uses than expected were recognised")
    rows = ", ".join(f'("{f}", "{n}", "{m}")' for f, n, m in uses)
    text = "-- GENERATED by translator/extract.py from slicec/src — do not edit.\nnamespace Slicec.Gen\n" \
           "/-- (file, binding, method) for every call on a HashMap / HashSet binding in non-test code of slicec -/\n" \
           f"def hashUses : List (String × String × String) := [{rows}]\nend Slicec.Gen\n"
    return text, len(uses)


def gen_emit_format(repo):
    """C14: JSON key names in order, severity strings, human-format literals, tab expansion, pointer"""
    T = "EmitFormat"
    rel = "slicec/src/diagnostic_emitter.rs"
    src = read(repo, rel, T)
    EM = r"DiagnosticEmitter"
    jbody = fn_body(src, "emit_diagnostics_in_json", T, rel, EM)
    # the announced number of fields: a literal or a named constant of the file / the function
    m = re.search(r'serialize_struct\(\s*"Diagnostic"\s*,\s*(' + INT_OR_CONST + r')\s*\)', jbody)
    if not m:
        raise ExtractionError(T, rel, "serialize_struct(\"Diagnostic\", n) not found")
    announced = int_or_const(src, m.group(1), T, rel, "serialize_struct(\"Diagnostic\", n)", jbody)
    keys = re.findall(r'\.serialize_field\(\s*"([^"\\]*)"', jbody)
    if len(keys) != announced or not keys:
        raise ExtractionError(T, rel, f"{len(keys)} serialize_field calls for a struct announced with {m.group(1)} fields")
    # the SerializeStruct local, under whatever name: `let mut <st> = <serializer>.serialize_struct("Diagnostic", n)?;`
    st = re.escape(local_bound_to(jbody, r'\w+\.serialize_struct\(\s*"Diagnostic"', "the local bound to serialize_struct(\"Diagnostic\", n)", T, rel))
    if len(re.findall(st + r'\.serialize_field\(', jbody)) != len(keys):
        raise ExtractionError(T, rel, "serialize_field is called on something else than the struct serializer of the diagnostic")
    if not re.search(st + r"\.end\(\)\?;\s*writeln!\(\s*self\.output\s*\)\?;", jbody) or len(re.findall(r"writeln!\(", jbody)) != 1:
        raise ExtractionError(T, rel, "the object is no longer followed by exactly one writeln!(self.output)")
    sev = dict(re.findall(r'DiagnosticLevel::(\w+)\s*=>\s*"([^"\\]*)"', jbody))
    if set(sev) != {"Error", "Warning"} or not re.search(r"DiagnosticLevel::Allowed\s*=>\s*continue", jbody):
        raise ExtractionError(T, rel, "severity match of emit_diagnostics_in_json not understood")
    # private helpers of the emitter that emit_diagnostics_in_human calls (other than emit_snippet, which is modelled on its own)
    # are read as part of it: splitting the function does not change what it prints
    hbody = inline_self_calls(fn_body(src, "emit_diagnostics_in_human", T, rel, EM), src, EM, T, rel,
                              keep=("emit_snippet", "emit_diagnostics_in_human"))
    # the prefix is `<word> [<code of the diagnostic>]`: the code may be captured inline from a local (`[{code}]` with
    # `let code = diagnostic.code();`) or passed as a positional argument (`[{}]", code` / `[{}]", diagnostic.code()`)
    lv = re.search(r"\bfor\s+(\w+)\s+in\s+\w+\s*\{", hbody)
    dvar = re.escape(lv.group(1)) if lv else r"diagnostic"
    code_exprs = set(re.findall(r"\blet\s+(\w+)\s*=\s*" + dvar + r"\.code\(\)\s*;", hbody))
    pre = {}
    for lvl, word, inline, arg in re.findall(r'DiagnosticLevel::(\w+)\s*=>\s*console::style\(format!\(\s*"([^"\\\[{}]*) \[\{(\w*)\}\]"\s*(?:,\s*([\w.]+(?:\(\))?)\s*,?)?\s*\)\)', hbody):
        if (inline and not arg and inline in code_exprs) or (not inline and arg and (arg in code_exprs or re.fullmatch(dvar + r"\.code\(\)", arg))):
            pre[lvl] = word
    if set(pre) != {"Error", "Warning"} or not re.search(r"DiagnosticLevel::Allowed\s*=>\s*continue", hbody):
        raise ExtractionError(T, rel, "prefix match of emit_diagnostics_in_human not understood")
    def positional(fmt):
        """`{name}` / `{name:spec}` (an identifier captured from the scope) prints exactly like `{}` / `{:spec}` with that argument"""
        return re.sub(r"(?<!\{)\{[A-Za-z_]\w*(:[^{}]*)?\}(?!\})", lambda mm: "{" + (mm.group(1) or "") + "}", fmt)

    fmts = [positional(f) for f in re.findall(r'writeln!\(\s*self\.output\s*,\s*"([^"]*)"', hbody)]
    note = re.search(r'console::style\("([^"\\]*)"\)\.blue\(\)\.bold\(\)', hbody)
    if fmts != ["{}: {}", "{}: {}"] or not note:
        raise ExtractionError(T, rel, f"format strings of emit_diagnostics_in_human changed: {fmts}")
    sbody = fn_body(src, "emit_snippet", T, rel, EM)
    sf = [positional(f) for f in re.findall(r'writeln!\(\s*self\.output\s*,\s*"([^"]*)"', sbody)]
    arrow = re.search(r'console::style\("([^"\\]*)"\)', sbody)
    if sf != [" {} {}:{}:{}", "{}"] or not arrow:
        raise ExtractionError(T, rel, f"format strings of emit_snippet changed: {sf}")
    if "#[serde(" in src:
        raise ExtractionError(T, rel, "serde attributes are not modelled")

    def struct_fields(rel2, name):
        raw = read(repo, rel2, T)          # comments (and with them doc comments) are gone; raw strings are ordinary strings
        if "#[serde(" in raw:
            raise ExtractionError(T, rel2, "serde attributes are not modelled")
        # the attributes in front of the struct, in any order and number (`#[derive(..)]`, `#[allow(..)]`, ..)
        mm = re.search(r"((?:#\[[^\]]*\]\s*)+)pub\s+struct\s+" + name + r"\s*\{", raw)
        dm = mm and re.search(r"#\[derive\(([^)]*)\)\]", mm.group(1))
        if not dm or "Serialize" not in dm.group(1):
            raise ExtractionError(T, rel2, f"`#[derive(Serialize ..)] pub struct {name}` not found")
        body = block_after(raw, mm.end() - 1)
        fields = re.findall(r"(?:pub(?:\([^)]*\))?\s+)?(\w+)\s*:\s*[^,]+,?", body or "")
        if not fields:
            raise ExtractionError(T, rel2, f"no fields in struct {name}")
        return fields

    # slice_file.rs contains a raw string r"/\" that confuses comment stripping: cut the file before it
    rel_sf = "slicec/src/slice_file.rs"
    pth = os.path.join(repo, rel_sf)
    if not os.path.exists(pth):
        raise ExtractionError(T, rel_sf, "file missing")
    raw_sf = open(pth, encoding="utf-8").read()
    tab = re.search(r'const EXPANDED_TAB: &str = "( *)";', raw_sf)
    ptr = re.search(r'style\(r"([^"]*)"\.to_owned\(\)\)', raw_sf)
    if not tab or not ptr:
        raise ExtractionError(T, rel_sf, "EXPANDED_TAB or the start==end pointer literal not found")
    if "#[serde(" in raw_sf:
        raise ExtractionError(T, rel_sf, "serde attributes are not modelled")
    loc = struct_fields(rel_sf, "Location")
    span = struct_fields(rel_sf, "Span")
    notef = struct_fields("slicec/src/diagnostics/mod.rs", "Note")

    # message texts of the three diagnostic kinds whose message is not their payload and which the emit driver (Drv/C14) constructs:
    # the *wording* belongs to errors.rs / lints.rs, not to the emitter, so it is read from there instead of being assumed
    def inline_format_args(text):
        """`format!("a {} b {:?}", x, y)` with plain identifiers as arguments prints like `format!("a {x} b {y:?}")`: write it that way"""
        def one(mm):
            fmt, args = mm.group(1), [a.strip() for a in mm.group(2).split(",") if a.strip()]
            holes = re.findall(r"(?<!\{)\{(:[^{}]*)?\}(?!\})", fmt)
            if len(holes) != len(args) or not all(re.fullmatch(r"[a-z_]\w*", a) for a in args):
                return mm.group(0)
            it = iter(args)
            return 'format!("' + re.sub(r"(?<!\{)\{(:[^{}]*)?\}(?!\})", lambda h: "{" + next(it) + (h.group(1) or "") + "}", fmt) + '")'
        return re.sub(r'format!\(\s*"((?:[^"\\]|\\.)*)"\s*,([^()]*?),?\s*\)', one, text)

    def template(rel_m, row_re, var, what):
        msrc_ = inline_format_args(read(repo, rel_m, T))
        mm = re.search(row_re, msrc_, re.S)
        if not mm:
            raise ExtractionError(T, rel_m, f"message of {what} is not a single format!(\"…{{{var}}}…\") literal")
        t = next(g for g in mm.groups() if g is not None)
        if t.count("{" + var + "}") != 1 or "\\" in t or re.search(r"\{(?!" + var + r"\})|(?<!\{" + var + r")\}", t):
            raise ExtractionError(T, rel_m, f"message template of {what} `{t}` is not `<text>{{{var}}}<text>`")
        pre, post = t.split("{" + var + "}")
        return pre, post
    msg_syntax = template("slicec/src/diagnostics/errors.rs", r'\(\s*"E\d+"\s*,\s*Syntax\s*,\s*format!\(\s*"([^"]*)"\s*,?\s*\)\s*,\s*message\s*,?\s*\)', "message", "Error::Syntax")
    msg_dup = template("slicec/src/diagnostics/lints.rs", r'\(\s*DuplicateFile\s*,\s*format!\(\s*"([^"]*)"\s*,?\s*\)\s*,\s*path\s*,?\s*\)', "path", "Lint::DuplicateFile")
    # the message without a reason: the `else` of `if let Some(..) = reason { .. } else { format!(..) }` or the `None` arm of
    # `match reason { Some(..) => .., None => format!(..) }` (arms in either order)
    fm, some_arm = r'format!\(\s*"([^"]*)"\s*,?\s*\)', r'Some\(\s*\w+\s*\)\s*=>\s*format!\([^()]*\)'
    msg_dep = template("slicec/src/diagnostics/lints.rs",
                       r'\(\s*Deprecated\s*,\s*(?:if\s+let\s+Some\(\s*\w+\s*\)\s*=\s*&?\s*reason\s*\{[^{}]*(?:\{[^{}]*\}[^{}]*)*\}\s*else\s*\{\s*' + fm + r'\s*\}'
                       r'|match\s+&?\s*reason\s*\{\s*(?:' + some_arm + r'\s*,\s*None\s*=>\s*' + fm + r'|None\s*=>\s*' + fm + r'\s*,\s*' + some_arm + r')\s*,?\s*\})'
                       r'\s*,\s*identifier\s*,\s*reason\s*,?\s*\)', "identifier", "Lint::Deprecated (no reason)")

    def q(x):
        return '"' + x.replace("\\", "\\\\").replace('"', '\\"') + '"'

    def lst(xs):
        return "[" + ", ".join(q(x) for x in xs) + "]"
    text = f"""-- GENERATED by translator/extract.py from slicec/src/diagnostic_emitter.rs, slice_file.rs, diagnostics/mod.rs — do not edit.
namespace Slicec.Gen
/-- `serialize_field` names of `emit_diagnostics_in_json`, in call order -/
def diagKeys : List String := {lst(keys)}
/-- field names of the `Serialize`-derived structs, in declaration order -/
def locKeys : List String := {lst(loc)}
def spanKeys : List String := {lst(span)}
def noteKeys : List String := {lst(notef)}
def severityError : String := {q(sev["Error"])}
def severityWarning : String := {q(sev["Warning"])}
/-- `format!("<prefix> [{{code}}]")` of `emit_diagnostics_in_human` -/
def errorPrefix : String := {q(pre["Error"])}
def warningPrefix : String := {q(pre["Warning"])}
def notePrefix : String := {q(note.group(1))}
/-- `console::style("-->")` of `emit_snippet` -/
def arrow : String := {q(arrow.group(1))}
/-- `EXPANDED_TAB` and the marker of an empty highlight in slice_file.rs -/
def expandedTab : String := {q(tab.group(1))}
def pointer : String := {q(ptr.group(1))}
/-- message wording (text before / after the payload) of `Error::Syntax`, `Lint::DuplicateFile`, `Lint::Deprecated` without reason,
    read from diagnostics/errors.rs and lints.rs; used only by the case generator of the `emit` engine -/
def msgSyntax : String × String := ({q(msg_syntax[0])}, {q(msg_syntax[1])})
def msgDuplicateFile : String × String := ({q(msg_dup[0])}, {q(msg_dup[1])})
def msgDeprecated : String × String := ({q(msg_dep[0])}, {q(msg_dep[1])})
end Slicec.Gen
"""
    return text, len(keys) + len(loc) + len(span) + len(notef) + 11


# ------------------------------------------------------------------------------------------------
# C06: preprocessor directive keywords (lexer.rs) and grammar productions (grammar.lalrpop)
# ------------------------------------------------------------------------------------------------

def _lean_str(x):
    return '"' + x.replace("\\", "\\\\").replace('"', '\\"') + '"'


def _lalrpop_symbols(text, T, rel, where):
    """normalised symbol list of one alternative: bindings and angle brackets removed, groups kept as one symbol"""
    t = text.replace("<!>", " @ERR@ ")
    t = re.sub(r"<\s*(?:mut\s+)?[a-z_]\w*\s*:", "<", t)
    t = t.replace("<", " ").replace(">", " ")
    toks = re.findall(r'"[^"]*"|\([^()]*\)[*?+]?|@ERR@|[A-Za-z_]\w*[*?+]?', t)
    if "".join(toks).replace(" ", "") != "".join(t.split()):
        raise ExtractionError(T, rel, f"{where}: symbols `{' '.join(text.split())}` not understood")
    out = []
    for k in toks:
        if k == "@ERR@":
            out.append("<!>")
        elif k.startswith("("):
            m = re.match(r"\((.*)\)([*?+]?)$", k, re.S)
            out.append("(" + " ".join(m.group(1).split()) + ")" + m.group(2))
        else:
            out.append(k)
    if not out:
        raise ExtractionError(T, rel, f"{where}: empty alternative")
    return out


def _split_alternatives(body, T, rel, name):
    """[(symbols text, action text)] of `{ a => x, b => { … }, c }`"""
    alts, i, n = [], 0, len(body)
    while i < n:
        while i < n and body[i] in " \t\r\n,":
            i += 1
        if i >= n:
            break
        # symbols run to the next `=>` or `,` at depth 0 (parentheses only occur as groups)
        depth, j = 0, i
        while j < n:
            ch = body[j]
            if ch == '"':
                j = body.index('"', j + 1)
            elif ch == "(":
                depth += 1
            elif ch == ")":
                depth -= 1
            elif depth == 0 and (body.startswith("=>", j) or ch == ","):
                break
            j += 1
        syms = body[i:j]
        action = ""
        if body.startswith("=>", j):
            k = j + 2
            while k < n and body[k] in " \t\r\n":
                k += 1
            if k < n and body[k] == "{":
                blk = block_after(body, k)
                if blk is None:
                    raise ExtractionError(T, rel, f"{name}: unbalanced action block")
                action = blk
                j = k + len(blk) + 2
            else:
                depth, e = 0, k
                while e < n:
                    ch = body[e]
                    if ch in "([{":
                        depth += 1
                    elif ch in ")]}":
                        depth -= 1
                    elif ch == "," and depth == 0:
                        break
                    e += 1
                action = body[k:e]
                j = e
        alts.append((syms, action))
        i = j
    return alts


PREPROC_PRODUCTION_ORDER = ("SliceFile", "BlockContent", "Node", "DefineDirective", "UndefineDirective", "IfDirective", "ElifDirective",
                            "ElseDirective", "EndifDirective", "Conditional", "Expression", "Term")     # = `modelGrammar` of Props/C06.lean


def gen_preproc_tables(repo):
    T = "Preproc"
    # (i) the keyword match of the lexer
    rel = "slicec/src/parsers/preprocessor/lexer.rs"
    src = read(repo, rel, T)
    body = fn_body(src, "lex_next_preprocessor_token", T, rel, r"Lexer")
    # the directive word: `let <name> = self.read_identifier(); match <name> { "define" => … }` — whatever the local is called
    m = None
    for lm in re.finditer(r"let\s+(\w+)\s*=\s*self\.read_identifier\(\)\s*;\s*", body):
        m = re.compile(r"match\s+" + re.escape(lm.group(1)) + r"\s*(?=\{)").match(body, lm.end())
        if m:
            break
    if not m:
        raise ExtractionError(T, rel, "`let <name> = self.read_identifier(); match <name> {` not found in lex_next_preprocessor_token")
    arms_src = block_after(body, m.end())
    if arms_src is None:
        raise ExtractionError(T, rel, "arms of the directive `match` not found")
    kw_rows = re.findall(r'"(\w*)"\s*=>\s*Some\(\s*(Ok|Err)\(\s*\(\s*\w+\s*,\s*(TokenKind|ErrorKind)::(\w+)', arms_src)
    # The arms are string literals, hence disjoint: their order in the `match` means nothing. The table lists them in a canonical
    # order instead, the order in which `enum TokenKind` / `enum ErrorKind` (tokens.rs) declare what they produce, tokens first.
    rel_t = "slicec/src/parsers/preprocessor/tokens.rs"
    tsrc = read(repo, rel_t, T)
    decl = {}
    for en in ("TokenKind", "ErrorKind"):
        em = re.search(r"\benum\s+" + en + r"\b[^{;]*\{", tsrc)
        eb = block_after(tsrc, em.end() - 1) if em else None
        if eb is None:
            raise ExtractionError(T, rel_t, f"enum {en} not found")
        flat = re.sub(r"\{[^{}]*\}|\([^()]*\)", "", re.sub(r"#\[[^\]]*\]", "", eb))
        decl[en] = [v.strip() for v in flat.split(",") if v.strip()]
    for _lit, _oe, en, kind in kw_rows:
        if kind not in decl[en]:
            raise ExtractionError(T, rel_t, f"{en}::{kind} is produced by the lexer but not declared")
    kw_rows.sort(key=lambda r: (r[2] != "TokenKind", decl[r[2]].index(r[3])))
    kws = [(a, d) for a, _, _, d in kw_rows]
    # the catch-all arm `<name> => ..` (the last arm, a bare binding) must build `ErrorKind::X { keyword: <name>.. }`; whether it
    # does so in a block with a local or in one expression does not matter
    fb = None
    for cm in re.finditer(r"(?<![:\w])([a-z_]\w*)\s*=>", arms_src):
        rest = arms_src[cm.end():]
        km = re.search(r"ErrorKind::(\w+)\s*\{\s*keyword\s*(?::\s*" + re.escape(cm.group(1)) + r"\b" + ("|[,}]" if cm.group(1) == "keyword" else "") + ")", rest)
        if km and "=>" not in rest:
            fb = (cm.group(1), km.group(1))
    if not fb:
        raise ExtractionError(T, rel, "fallback arm `<name> => … ErrorKind::X { keyword: <name>… }` not found")
    if len(re.findall(r"=>", arms_src)) != len(kws) + 1:
        raise ExtractionError(T, rel, f"{len(re.findall(r'=>', arms_src))} arms in `match identifier`, {len(kws) + 1} understood")
    if len(kws) < 1:
        raise ExtractionError(T, rel, "no directive keyword arms found")
    fallback = fb[1]

    # (ii) terminals and productions of the grammar
    rel2 = "slicec/src/parsers/preprocessor/grammar.lalrpop"
    g = read(repo, rel2, T)
    me = re.search(r"\bextern\s*\{", g)
    if not me:
        raise ExtractionError(T, rel2, "`extern {` block not found")
    ext = block_after(g, me.end() - 1)
    mt = re.search(r"enum\s+TokenKind[^{]*", ext or "")
    if not mt:
        raise ExtractionError(T, rel2, "`enum TokenKind` not found in the extern block")
    enum_body = block_after(ext, mt.end())
    terms = re.findall(r'("[^"]*"|[a-z_]\w*)\s*=>\s*TokenKind::(\w+)', enum_body or "")
    if not terms or len(terms) != len(re.findall(r"=>", enum_body)):
        raise ExtractionError(T, rel2, "terminal declarations not understood")
    rest = g[me.end() + len(ext) + 1:]
    prods = []
    pos = 0
    header = re.compile(r"(?:pub\s+)?\b([A-Z]\w*)\s*(?::\s*[^={;]+?)?\s*=(?!>)\s*")
    while True:
        mh = header.search(rest, pos)
        if not mh:
            break
        name = mh.group(1)
        k = mh.end()
        if k < len(rest) and rest[k] == "{":
            blk = block_after(rest, k)
            if blk is None:
                raise ExtractionError(T, rel2, f"{name}: unbalanced production block")
            alts = _split_alternatives(blk, T, rel2, name)
            pos = k + len(blk) + 2
        else:
            e = rest.find(";", k)
            if e < 0:
                raise ExtractionError(T, rel2, f"{name}: `;` not found")
            alts = [(rest[k:e], "")]
            pos = e + 1
        rows = []
        for syms, action in alts:
            ctor = re.search(r"\b([A-Z]\w*::[A-Z]\w*)\b", action)
            rows.append((_lalrpop_symbols(syms, T, rel2, name), ctor.group(1) if ctor else ""))
        prods.append((name, rows))
    if re.sub(r"\s+", "", rest[pos:]):
        raise ExtractionError(T, rel2, f"text after the last production not understood: {rest[pos:].strip()[:40]}")
    # The order of the items of a LALRPOP grammar carries no meaning (the parser is generated from the set of productions): the
    # productions the model knows are emitted in the model's order, any other one after them in source order (a new nonterminal
    # is a changed grammar and re-opens the obligation anyway). A nonterminal defined twice is not reordered.
    if len({n for n, _ in prods}) == len(prods):
        rank = {n: i for i, n in enumerate(PREPROC_PRODUCTION_ORDER)}
        prods = sorted(prods, key=lambda pr: rank.get(pr[0], len(rank)))      # stable: unknown names keep their source order
    names = [n for n, _ in prods]
    for need in ("SliceFile", "Node", "Conditional", "Expression", "Term"):
        if need not in names:
            raise ExtractionError(T, rel2, f"production {need} not found")

    def pairs(l):
        return "[" + ", ".join(f"({_lean_str(a)}, {_lean_str(b)})" for a, b in l) + "]"

    def alt(a):
        syms, ctor = a
        return "([" + ", ".join(_lean_str(x) for x in syms) + "], " + _lean_str(ctor) + ")"

    prod_lines = ",\n".join(f"  ({_lean_str(n)}, [" + ", ".join(alt(a) for a in rows) + "])" for n, rows in prods)
    text = f"""-- GENERATED by translator/extract.py from slicec/src/parsers/preprocessor/{{lexer.rs,grammar.lalrpop}} — do not edit.
namespace Slicec.Gen

/-- arms of `match identifier {{ "<kw>" => … }}` in `lex_next_preprocessor_token` (the identifier read after `#`):
    (literal, `TokenKind::X` or `ErrorKind::X` it produces); any other identifier gives `directiveFallback` -/
def directiveKeywords : List (String × String) := {pairs(kws)}
def directiveFallback : String := {_lean_str(fallback)}

/-- `extern {{ enum TokenKind {{ terminal => TokenKind::X }} }}` of grammar.lalrpop -/
def preprocTerminals : List (String × String) := {pairs(terms)}

/-- productions of grammar.lalrpop: (nonterminal, alternatives); an alternative is its symbol list (bindings and
    angle brackets removed, groups kept as one symbol) and the first `Type::Constructor` path of its action ("" if none) -/
def preprocGrammar : List (String × List (List String × String)) := [
{prod_lines}
]

end Slicec.Gen
"""
    return text, len(kws) + 1 + len(terms) + sum(len(r) for _, r in prods)



SLICEC_PANIC_PAT = re.compile(
    r"\b(todo!|unimplemented!|panic!|unreachable!|assert!|assert_eq!|assert_ne!)\s*\(|\.unwrap\(\)|\.expect\(|\.unwrap_unchecked\(\)|unreachable_unchecked\(\)"
    r"|\[[^\]\[]*\.\.[^\]\[]*\]|\.split_last\(\)\.unwrap|\.remove\(\d+\)|\.swap_remove\(|\.replace_range\(|\.split_at\(|\.drain\("
    r"|(?<=[A-Za-z_\)\]])\[[^\]\[]+\]")  # last alternative: plain index expressions `x[i]`


def enclosing_fn(src_lines, idx):
    for j in range(idx, -1, -1):
        m = re.search(r"\bfn\s+([A-Za-z_][A-Za-z0-9_]*)", src_lines[j])
        if m and (src_lines[j].lstrip().startswith(("fn", "pub", "unsafe", "async", "const", "pub(")) or " fn " in src_lines[j]):
            return m.group(1)
    return "-"


def gen_panic_sites(repo):
    """every panic-capable site in non-test code of slicec/src (macros, unwrap/expect, range slicing), keyed by
    file + enclosing fn + normalised text; each must have a disposition in translator/ledger/panic_sites.json"""
    import json
    T = "PanicSites"
    base = os.path.join(repo, "slicec", "src")
    sites = []
    for dirpath, _, files in sorted(os.walk(base)):
        for fn in sorted(files):
            if not fn.endswith(".rs") or fn in ("tests.rs", "verif_hooks.rs"):
                continue
            rel = os.path.relpath(os.path.join(dirpath, fn), repo)
            src = strip_test_modules(read(repo, rel, T))
            lines = src.splitlines()
            for i, line in enumerate(lines):
                st = line.strip()
                if st.startswith("#[") or st.startswith("debug_assert"):
                    continue
                for m in SLICEC_PANIC_PAT.finditer(line):
                    if m.group(0).startswith("[") and not re.search(r"[A-Za-z_)\]]\s*$", line[:m.start()]):
                        continue  # an array/slice literal or attribute, not an index expression
                    if m.group(0).startswith("[") and ".." not in m.group(0) and "//" in line[:m.start()]:
                        continue  # plain `[...]` inside a trailing comment
                    norm = re.sub(r"\s+", " ", st)[:90]
                    key = f"{rel}::{enclosing_fn(lines, i)}::{norm}"
                    sites.append(key)
    # number duplicates so keys are unique and stable
    seen, keys = {}, []
    for k in sites:
        seen[k] = seen.get(k, 0) + 1
        keys.append(k if seen[k] == 1 else f"{k} #{seen[k]}")
    ledger_path = os.path.join(os.path.dirname(os.path.abspath(__file__)), "ledger", "panic_sites.json")
    ledger = json.load(open(ledger_path, encoding="utf-8")) if os.path.exists(ledger_path) else {}

    # A site that was merely reformatted, re-bound to another local, whose receiver local or whose enclosing fn was renamed is still
    # the same site. An unmapped key inherits the disposition of a ledger entry that disappeared from the same file at the same time,
    # one to one and in source order, when (1) both have the same panic-capable *expression* (receiver chain + construct, e.g.
    # `slice_file.module.as_ref().unwrap()`), or (2) in the same fn, one expression is the tail of the other at a `.` (a method chain
    # was split over lines or joined: the key of a continuation line is just `.unwrap()`), or (3) in the same fn, the lines are equal up to
    # a consistent renaming of lower-case names and the old names occur nowhere in that fn any more (a local was renamed).
    def site_cores(text):
        out = []
        for m in SLICEC_PANIC_PAT.finditer(text):
            i, depth = m.start(), 0
            while i > 0:
                ch = text[i - 1]
                if ch in ")]":
                    depth += 1
                elif ch in "([":
                    if depth == 0:
                        break
                    depth -= 1
                elif depth == 0 and not (ch.isalnum() or ch in "_.:?&!<>'\""):
                    break
                i -= 1
            expr = re.sub(r"\s+", "", text[i:m.end()])
            for n, cp in enumerate(re.findall(r"\|(\w+)\|", expr)):          # closure parameters are bound names
                expr = re.sub(r"\b" + re.escape(cp) + r"\b", "$%d" % n, expr)
            out.append(expr)
        return out

    def parts(key):
        rel_, fn_, text = key.split("::", 2)
        nm = re.search(r" #(\d+)$", text)
        return rel_, fn_, (text[:nm.start()] if nm else text), (int(nm.group(1)) if nm else 1)

    def core(key):
        """the expression of this one site: a line with m sites yields the keys `line`, `line #2`, .. in match order, line after line"""
        _r, _f, text, n = parts(key)
        c = site_cores(text)
        return c[(n - 1) % len(c)] if c else None

    def fn_text(rel_, name):
        try:
            return "\n".join(p_ + "{" + b_ + "}" for _d, p_, b_ in _fn_items(strip_test_modules(read(repo, rel_, T)), name))
        except ExtractionError:
            return ""

    def fn_exists(rel_, name):
        return fn_text(rel_, name) != ""

    def tail_of(a, b):
        short, long_ = (a, b) if len(a) <= len(b) else (b, a)
        return short.startswith(".") and long_.endswith(short)

    def renaming(a, b, sigma):
        """extend sigma so that a, renamed, reads like b (both are key texts, cut at 90 characters); None if impossible"""
        # whether a closure parameter / pattern binds a reference (`|i| .. [*i]`, `Some(i) => .. [*i]`) or the value behind it
        # (`|&i| .. [i]`, `Some(&i) => .. [i]`) does not change what the indexed / unwrapped expression is
        def plain(t):
            t = re.sub(r"(^|[^\w)\]\s])\s*\*(?=[a-z_])", r"\1", t)
            return re.sub(r"([|(,]\s*)&(?=[a-z_]\w*\s*[|),])", r"\1", t)
        a, b = plain(a), plain(b)
        ta, tb = re.findall(r"[A-Za-z_]\w*|\S", a), re.findall(r"[A-Za-z_]\w*|\S", b)
        n = min(len(ta), len(tb))
        if len(a) >= 90 or len(b) >= 90:
            n -= 1                                    # the last token of a cut line may be incomplete
        elif len(ta) != len(tb):
            return None
        if n < 2:
            return None
        sigma = dict(sigma)
        for x, y in zip(ta[:n], tb[:n]):
            if x == y and sigma.get(x, x) == x:
                continue
            if not (re.fullmatch(r"[a-z_][a-z0-9_]*", x) and re.fullmatch(r"[a-z_][a-z0-9_]*", y)) or sigma.get(x, y) != y:
                return None
            if x != y and y in sigma.values() and sigma.get(x) != y:
                return None
            sigma[x] = y
        return sigma

    inherited, moved = {}, []
    present = set(keys)
    gone = [k for k in ledger if k not in present]                # in ledger (= source) order
    fresh_all = [k for k in keys if k not in ledger]

    def only_called_from(rel_, helper, caller):
        """`helper` is a fn of this file that is not `pub` and every call of it, anywhere in slicec/src, stands in the body of
        `caller` (a fn of the same file): a site that moved between the two is reached in the same context as before"""
        if helper in ("-", caller) or caller == "-":
            return False
        try:
            src_ = strip_test_modules(read(repo, rel_, T))
        except ExtractionError:
            return False
        if len(_fn_items(src_, helper)) != 1 or not fn_exists(rel_, caller):
            return False
        if re.search(r"\bpub\b[^;{}]*\bfn\s+" + re.escape(helper) + r"\b", src_):
            return False
        call = re.compile(r"(?<!\bfn\s)(?<![\w])" + re.escape(helper) + r"\s*(?:::\s*<[^>]*>\s*)?\(")
        uses_in_file = len([m for m in call.finditer(src_) if not re.search(r"\bfn\s+$", src_[:m.start()])])
        uses_in_caller = len([m for m in call.finditer(fn_text(rel_, caller)) if not re.search(r"\bfn\s+$", fn_text(rel_, caller)[:m.start()])])
        if uses_in_file == 0 or uses_in_file != uses_in_caller:
            return False
        for dirpath_, _d, files_ in os.walk(base):
            for f_ in files_:
                other = os.path.relpath(os.path.join(dirpath_, f_), repo)
                if f_.endswith(".rs") and other != rel_ and call.search(read(repo, other, T)):
                    return False
        return True

    def same_fn(g, k):
        """same enclosing fn, or the old fn no longer exists in the file (it was renamed), or the site moved into a private helper
        that only its old fn calls (a helper was extracted), or from such a helper into its only caller (it was inlined)"""
        return parts(g)[1] == parts(k)[1] or not fn_exists(parts(g)[0], parts(g)[1]) \
            or only_called_from(parts(k)[0], parts(k)[1], parts(g)[1]) or only_called_from(parts(k)[0], parts(g)[1], parts(k)[1])

    def inherit(pairs):
        for g, k in pairs:
            inherited[k] = ledger[g]
            moved.append((g, k))
            gone.remove(g)
            fresh_all.remove(k)

    # (1) same expression
    groups = {}
    for k in fresh_all:
        if core(k):
            groups.setdefault((parts(k)[0], core(k)), []).append(k)
    for (rel_, c), fresh in groups.items():
        ok = [g for g in gone if parts(g)[0] == rel_ and core(g) == c and any(same_fn(g, k) for k in fresh)]
        if len(ok) == len(fresh):                                  # one-to-one, in source order
            inherit(list(zip(ok, fresh)))
    # (2) and (3): what is left, fn by fn
    for rel_, fn_ in sorted({(parts(k)[0], parts(k)[1]) for k in fresh_all}):
        fresh = [k for k in fresh_all if parts(k)[:2] == (rel_, fn_)]
        old = [g for g in gone if parts(g)[0] == rel_ and (parts(g)[1] == fn_ or not fn_exists(rel_, parts(g)[1]))]
        if not old or len(old) != len(fresh):
            continue
        # the ledger need not list the entries of a fn in source order: each new site takes the first old one that fits
        rest, pairs = list(old), []
        for k in fresh:
            g = next((g for g in rest if core(g) and core(k) and (core(g) == core(k) or tail_of(core(g), core(k)))), None)
            if g is None:
                break
            rest.remove(g)
            pairs.append((g, k))
        if len(pairs) == len(fresh):
            inherit(pairs)
            continue
        rest, pairs, sigma = list(old), [], {}
        for k in fresh:
            hit = next(((g, s_) for g in rest for s_ in [renaming(parts(g)[2], parts(k)[2], sigma)] if s_ is not None), None)
            if hit is None:
                break
            rest.remove(hit[0])
            pairs.append((hit[0], k))
            sigma = hit[1]
        if len(pairs) == len(fresh):
            renamed = {x for x, y in sigma.items() if x != y}
            body = fn_text(rel_, fn_)
            if renamed and not any(re.search(r"(?<![\w.])" + re.escape(x) + r"\b", body) for x in renamed):
                inherit(pairs)
    ledger = dict(ledger)
    for old_key, new_key in moved:
        ledger[new_key] = inherited[new_key]
        del ledger[old_key]

    def q(x):
        return '"' + x.replace("\\", "\\\\").replace('"', '\\"') + '"'
    classes = ("model", "unreachable", "internal", "environment", "reachable")
    rows = []
    for k in keys:
        disp = ledger.get(k, {}).get("disposition", "unmapped")
        cls = disp.split(":", 1)[0].lower() if ":" in disp else "unmapped"
        if cls not in classes:
            cls = "unmapped"
        rows.append(f"  ({q(k)}, SiteClass.{cls}, {q(disp)})")
    # A ledger entry whose site is gone: the panic-capable construct was removed from the code (`x[2..]` became `strip_prefix`, an
    # index loop became a `zip`) or it moved where the inheritance above does not follow (another fn / file) -- in the second case
    # the new site is unmapped and `ledger_complete` fails on its own account. Removing a construct cannot add a panic, so a gone
    # entry is *retired* (published, named in a NOTE, not an obligation) unless it can change how a remaining site is classified:
    # sites with the same text in the same fn are told apart by their number (`key`, `key #2`, ..), so when one of them goes the
    # others are renumbered and take each other's entries; that is harmless only if all of them have the same disposition.
    def family(k):
        return parts(k)[:3]
    stale, retired = [], []
    for k in sorted(set(ledger) - set(keys)):
        same_text = [x for x in ledger if family(x) == family(k)]
        (retired if all(ledger[x].get("disposition") == ledger[k].get("disposition") for x in same_text) else stale).append(k)
    # name the offending sites in the check's output (every line of the translator that is neither TABLE nor NOTE is reported as a
    # broken obligation)
    for k in keys:
        if k not in ledger:
            print(f"PanicSites: site not in the ledger (classify it in translator/ledger/panic_sites.json): {k}")
    for k in stale:
        print(f"PanicSites: ledger entry whose site is gone while sites with the same text but another disposition remain (remove or re-key it): {k}")
    for k in retired:
        print(f"NOTE PanicSites: ledger entry whose site is gone (the construct was removed; delete the entry at the next opportunity): {k}")
    text = "-- GENERATED by translator/extract.py from slicec/src + translator/ledger/panic_sites.json — do not edit.\nnamespace Slicec.Gen\n" \
           "/-- class of a panic-capable site: `model` the model has this outcome branch; `unreachable` shown or argued unreachable;\n" \
           "    `internal` guards an invariant established by earlier phases; `environment` needs a failing output stream (outside the\n" \
           "    property's quantifiers); `reachable` an input reaches it (a defect); `unmapped` = in the source but not in the ledger -/\n" \
           "inductive SiteClass where\n  | model | unreachable | internal | environment | reachable | unmapped\n  deriving DecidableEq, Repr\n" \
           "/-- (site = file::fn::normalised text, class, disposition text of the ledger) -/\n" \
           "def panicSites : List (String × SiteClass × String) := [\n" + ",\n".join(rows) + "]\n" \
           "/-- ledger entries whose site no longer exists in the source although sites with the same text in the same fn, but with\n" \
           "    another disposition, remain (the renumbering of the remaining ones could give them the wrong entry) -/\n" \
           "def staleLedgerKeys : List String := [" + ", ".join(q(k) for k in stale) + "]\n" \
           "/-- ledger entries whose site no longer exists and which cannot be confused with a remaining site: the panic-capable\n" \
           "    construct was removed from the code; informational -/\n" \
           "def retiredLedgerKeys : List String := [" + ", ".join(q(k) for k in retired) + "]\n" \
           "/-- (ledger key, current key): sites whose line was reformatted / re-bound / whose fn was renamed; they keep their disposition\n" \
           "    because the panic-capable expression is unchanged — update the keys in the ledger at the next opportunity -/\n" \
           "def movedPanicSites : List (String × String) := [" + ", ".join(f"({q(a)}, {q(b)})" for a, b in moved) + "]\nend Slicec.Gen\n"
    return text, len(keys)


# --- DriverShape (C07, C18): paste into translator/extract.py before `TABLES = {`, and add
#     "DriverShape": gen_driver_shape  to TABLES ------------------------------------------------------

def gen_driver_shape(repo):
    """shape of the driver: guard of the generator block and status arms (main.rs), phase calls and their
    gates (lib.rs, patchers/mod.rs, validators/mod.rs), `action` strings of the E001s built in main.rs"""
    T = "DriverShape"
    ws = lambda s: re.sub(r"\s+", "", s)  # noqa: E731

    def q(x):
        return '"' + x.replace("\\", "\\\\").replace('"', '\\"') + '"'

    # ---- main.rs: the condition in front of the generator block --------------------------------
    rel = "slicec/src/main.rs"
    src = read(repo, rel, T)
    body = fn_body(src, "main", T, rel)
    if "spawn_plugin_process" not in body:
        raise ExtractionError(T, rel, "fn main no longer calls spawn_plugin_process")
    # the two locals the guard talks about, under the names the model knows them by: the parsed options (`slice_options`) and the
    # diagnostics taken out of the compilation state (`diagnostics`), whatever `main` calls them
    renames = {}
    om = re.search(r"\blet\s+(\w+)\s*(?::[^=;]+)?=\s*SliceOptions::parse\(\)\s*;", body)
    if om:
        renames[om.group(1)] = "slice_options"
    dm = re.search(r"\blet\s+CompilationState\s*\{[^{}]*?(\bdiagnostics\s*:\s*(mut\s+)?(\w+))[^{}]*\}\s*=", body)
    if dm:
        renames[dm.group(3)] = "diagnostics"
        body = body[:dm.start(1)] + (dm.group(2) or "") + dm.group(3) + body[dm.end(1):]      # written as field shorthand
    for old, new in renames.items():
        # (a path segment `x::diagnostics::y` or a word inside a string literal is not a local)
        if old != new and not re.search(r"(?<![\w.:])" + new + r"\b(?!\s*::)", re.sub(r'"(?:[^"\\]|\\.)*"', '""', body)):
            body = re.sub(r"(?<![\w.:])" + re.escape(old) + r"\b(?!\s*::)", new, body)
    conj = []
    for m in re.finditer(r"\bif\s+([^{};]+?)\s*\{", body):
        blk = block_after(body, m.end() - 1)
        if blk is not None and "spawn_plugin_process" in blk:
            cond = m.group(1)
            # a condition that is a plain local name (`let run = a && b; if run {`) stands for the expression it was bound to;
            # the binding must be immutable and the only one of that name in front of the `if`
            for _ in range(3):
                if not re.fullmatch(r"!?\s*[a-z_]\w*", cond.strip()):
                    break
                neg, name = cond.strip().startswith("!"), cond.strip().lstrip("!").strip()
                binds = re.findall(r"\blet\s+(mut\s+)?" + re.escape(name) + r"\s*(?::\s*bool\s*)?=(?!=)\s*([^;]+);", body[:m.start()])
                if len(binds) != 1 or binds[0][0]:
                    break
                if neg and "&&" in binds[0][1]:
                    break
                cond = ("!" if neg else "") + binds[0][1]
            conj += [ws(c) for c in cond.split("&&")]
    # `a && b` and `b && a` are the same condition when neither conjunct does anything but read a value: list such conjuncts in a
    # canonical (sorted) order. A conjunct with a call that takes arguments keeps its place.
    if all(re.fullmatch(r"!?[a-z_]\w*(?:\.[a-z_]\w*(?:\(\))?)*", c) for c in conj):
        conj.sort()
    # ---- main.rs: collect_plugin_output ---------------------------------------------------------
    cb = fn_body(src, "collect_plugin_output", T, rel)
    # the `std::process::Output`, under whatever name: `let <output> = <child>.wait_with_output()?;`
    out_name = local_bound_to(cb, r"\w+\.wait_with_output\(\)\?\s*;", "collect_plugin_output: `let <output> = <child>.wait_with_output()?;`", T, rel)
    if out_name != "output":
        if re.search(r"(?<![\w.:])output\b(?!\s*::)", re.sub(r'"(?:[^"\\]|\\.)*"', '""', cb)):
            raise ExtractionError(T, rel, "collect_plugin_output: the name `output` is used for something else than the process output")
        cb = re.sub(r"(?<![\w.])" + re.escape(out_name) + r"\b", "output", cb)
    mm = re.search(r"match\s+output\s*\.\s*status\s*\.\s*code\s*\(\s*\)\s*", cb)
    if not mm:
        raise ExtractionError(T, rel, "collect_plugin_output: `match output.status.code()` not found")
    arms_txt = block_after(cb, mm.end() - 1)
    if arms_txt is None:
        raise ExtractionError(T, rel, "collect_plugin_output: match block not found")
    stderr_check = False
    ms = re.search(r"\bif\s+!\s*output\s*\.\s*stderr\s*\.\s*is_empty\s*\(\s*\)\s*\{", cb[:mm.start()])
    if ms:
        blk = block_after(cb, ms.end() - 1)
        stderr_check = blk is not None and re.search(r"\breturn\s+Err\s*\(", blk) is not None
    arms = []
    for am in re.finditer(r"([^=>,{}]+?)\s*=>\s*(Ok|Err)\s*\(([^;]*?)\)\s*,", arms_txt):
        pats = []
        for alt in am.group(1).split("|"):
            alt = ws(alt)
            if re.fullmatch(r"Some\((\d+)\)", alt):
                pats.append(".code " + re.fullmatch(r"Some\((\d+)\)", alt).group(1))
            elif re.fullmatch(r"Some\(_?[a-z]\w*\)|Some\(_\)", alt):
                pats.append(".anyCode")
            elif alt == "None":
                pats.append(".noCode")
            elif alt == "_":
                pats.append(".any")
            else:
                raise ExtractionError(T, rel, f"collect_plugin_output: status pattern `{alt}` not understood")
        if am.group(2) == "Ok":
            if ws(am.group(3)) != "output.stdout":
                raise ExtractionError(T, rel, f"collect_plugin_output: Ok arm returns `{ws(am.group(3))}`, expected output.stdout")
            arms.append((pats, True))
        else:
            arms.append((pats, False))
    if not arms:
        raise ExtractionError(T, rel, "collect_plugin_output: no status arms found")
    actions = re.findall(r"\baction\s*:\s*\"([^\"]*)\"", src)
    # ---- lib.rs: compile_from_options / compile_files -------------------------------------------
    rel2 = "slicec/src/lib.rs"
    lsrc = read(repo, rel2, T)
    cfo = fn_body(lsrc, "compile_from_options", T, rel2)
    i_res = cfo.find("resolve_files_from(")
    m_cf = re.search(r"\bcompile_files\s*\(", cfo)
    if i_res < 0 or not m_cf or m_cf.start() < i_res:
        raise ExtractionError(T, rel2, "compile_from_options: resolve_files_from(...) followed by compile_files(...) not found")
    gate_cf = "ungated"
    # the compilation state of compile_from_options, under whatever name: `let mut <state> = CompilationState::create();`
    cfo_state = local_bound_to(cfo, r"CompilationState::create\(\)\s*;", "compile_from_options: `let mut <state> = CompilationState::create();`", T, rel2)
    for mi in re.finditer(r"\bif\s+([^{};]+?)\s*\{", cfo[i_res:]):
        blk = block_after(cfo[i_res:], mi.end() - 1)
        if blk is not None and re.search(r"\bcompile_files\s*\(", blk):
            gate_cf = "if-clean" if ws(mi.group(1)) == "!" + cfo_state + ".diagnostics.has_errors()" else "if:" + ws(mi.group(1))
    rows = [("resolve", "always")]
    # `apply` / `apply_unsafe` must be "call the function iff no error so far": compared up to local names, layout, a single-use
    # local for the test, and the three ways of writing it (`if !e { f }`, `if e { return; } f`, `match e { false => f, true => {} }`)
    rel5 = "slicec/src/compilation_state.rs"
    csrc = read(repo, rel5, T)
    E = "self.diagnostics.has_errors()"
    accepted = set()
    for call in ("function(self);", "function(self)", "unsafe { function(self); }", "unsafe { function(self) }", "unsafe { function(self) };"):
        for form in ("if !%s { %s }" % (E, call), "if %s { return; } %s" % (E, call), "if %s { return } %s" % (E, call),
                     "match %s { false => %s, true => {} }" % (E, call.rstrip(";")), "match %s { true => {}, false => %s }" % (E, call.rstrip(";")),
                     "match %s { true => {}, false => %s, }" % (E, call.rstrip(";")), "match %s { false => %s, true => {}, }" % (E, call.rstrip(";"))):
            accepted.add(rustcanon.canon(form, ["function"]))
    for fname in ("apply", "apply_unsafe"):
        ab = fn_body(csrc, fname, T, rel5, r"CompilationState")
        ap = fn_params(csrc, fname, T, rel5, r"CompilationState")
        if len(ap) != 1 or rustcanon.canon(ab, ap) not in accepted:
            raise ExtractionError(T, rel5, f"fn {fname} is no longer `if !self.diagnostics.has_errors() {{ function(self); }}` (or an equivalent spelling of it)")

    def group(body_txt, events, clean_at_entry, where):
        """events: list of (regex, kind, name); kind in call/apply/check. returns rows in source order"""
        found = []
        for rx, kind, name in events:
            for mi in re.finditer(rx, body_txt):
                found.append((mi.start(), kind, name if name else ws(mi.group(1))))
        found.sort()
        out, clean = [], clean_at_entry
        for _pos, kind, name in found:
            if kind == "check":
                clean = True
            elif kind == "apply":
                out.append((name, "if-clean"))
                clean = False
            else:
                out.append((name, "if-clean" if clean else "ungated"))
                clean = False
        return out

    cf = fn_body(lsrc, "compile_files", T, rel2)
    # the state is compile_files' first parameter, under whatever name
    cf_params = fn_params(lsrc, "compile_files", T, rel2)
    if not cf_params:
        raise ExtractionError(T, rel2, "compile_files has no parameter")
    st = r"(?<![\w.])" + re.escape(cf_params[0])
    top = group(cf, [
        (r"\bparsers::parse_files\s*\(", "call", "parse"),
        (st + r"\s*\.\s*apply(?:_unsafe)?\s*\(\s*patchers::patch_ast\s*\)", "apply", "PATCH"),
        (st + r"\s*\.\s*apply(?:_unsafe)?\s*\(\s*validators::validate_ast\s*\)", "apply", "VALIDATE"),
        (r"\bpatchers::patch_ast\s*\(\s*" + st + r"\s*\)", "call", "PATCH"),
        (r"\bvalidators::validate_ast\s*\(\s*" + st + r"\s*\)", "call", "VALIDATE"),
    ], gate_cf == "if-clean", rel2)
    if [n for n, _g in top] != ["parse", "PATCH", "VALIDATE"]:
        raise ExtractionError(T, rel2, f"compile_files: expected parse_files, patch_ast, validate_ast in this order, found {[n for n, _ in top]}")
    rel3 = "slicec/src/patchers/mod.rs"
    psrc = read(repo, rel3, T)
    pb = fn_body(psrc, "patch_ast", T, rel3)
    # its state parameter and the local that holds the function built by `patch_attributes!`, under whatever names
    pa_params = fn_params(psrc, "patch_ast", T, rel3)
    if not pa_params:
        raise ExtractionError(T, rel3, "patch_ast has no parameter")
    pst = r"(?<![\w.])" + re.escape(pa_params[0])
    attr_local = local_bound_to(pb, r"patch_attributes!\s*\(", "patch_ast: `let <f> = patch_attributes!(..);`", T, rel3)
    pnames = {attr_local: "attributes", "type_ref_patcher::patch_ast": "typeRefs", "comment_link_patcher::patch_ast": "links"}
    rel4 = "slicec/src/validators/mod.rs"
    vsrc_ = read(repo, rel4, T)

    def inline_private_calls(body_txt, file_src):
        """a statement `helper(..);` that calls a private free function of the same file which neither returns early nor uses `?`
        reads like that function's body (one level): moving a few statements into a helper does not change the order of the phases"""
        def repl(cm):
            name = cm.group(1)
            items = [it for it in _fn_items(file_src, name) if it[0] == 0]
            if len(items) != 1 or re.search(r"\breturn\b|\?", items[0][2]) or re.search(r"\bpub\b[^;{}]*\bfn\s+" + name + r"\b", file_src):
                return cm.group(0)
            return "{" + items[0][2] + "}"
        return re.sub(r"(?<![\w.:!])([a-z_]\w*)\s*\([^;{}]*\)\s*;", repl, body_txt)

    vb = inline_private_calls(fn_body(vsrc_, "validate_ast", T, rel4), vsrc_)
    # the receiver of `has_errors()` is the state's diagnostics, under whatever local name validate_ast gives it
    vsig = re.search(r"\bfn\s+validate_ast\s*\(\s*(\w+)\s*:", read(repo, rel4, T))
    vstate = re.escape(vsig.group(1)) if vsig else r"compilation_state"
    diag_recv = r"(?:" + vstate + r"\s*\.\s*diagnostics" + "".join(
        "|" + re.escape(n) for n in re.findall(r"\blet\s+(\w+)\s*=\s*&mut\s+" + vstate + r"\s*\.\s*diagnostics\s*;", vb)) + ")"
    for name, gate in top:
        if name == "parse":
            rows.append(("parse", gate))
        elif name == "PATCH":
            sub = group(pb, [
                (pst + r"\s*\.\s*apply(?:_unsafe)?\s*\(\s*([\w:]+)\s*\)", "apply", None),
                (r"\b(" + re.escape(attr_local) + r"|type_ref_patcher::patch_ast|comment_link_patcher::patch_ast)\s*\(\s*" + pst + r"\s*\)", "call", None),
            ], gate == "if-clean", rel3)
            for n, g in sub:
                if n not in pnames:
                    raise ExtractionError(T, rel3, f"patch_ast: unknown patcher `{n}`")
                rows.append((pnames[n], g))
        else:
            sub = group(vb, [
                (r"\bcycle_detection::detect_cycles\s*\(", "call", "cycles"),
                (r"\bidentifiers::check_for_redefinitions\s*\(", "call", "redefinitions"),
                (r"\.\s*visit_with\s*\(", "call", "visitor"),
                (r"\bif\s+" + diag_recv + r"\s*\.\s*has_errors\s*\(\s*\)\s*\{\s*return\s*;\s*\}", "check", "-"),
            ], gate == "if-clean", rel4)
            rows += sub
    have = [n for n, _g in rows]
    for need in ("resolve", "parse", "attributes", "typeRefs", "links", "cycles", "redefinitions", "visitor"):
        if have.count(need) != 1:
            raise ExtractionError(T, "slicec/src", f"phase `{need}` found {have.count(need)} times in the compile pipeline")
    arms_lean = ", ".join("([%s], %s)" % (", ".join(p), "true" if ok else "false") for p, ok in arms)
    text = f"""-- GENERATED by translator/extract.py from slicec/src/main.rs, lib.rs, patchers/mod.rs, validators/mod.rs — do not edit.
namespace Slicec.Gen
/-- conjuncts of the condition guarding the generator block of `main` (whitespace removed) -/
def driverGuard : List String := [{", ".join(q(c) for c in conj)}]
/-- compilation phases in call order with their gate: "always", "if-clean" (runs iff no error was reported so far:
    `apply`/`apply_unsafe`, an `if !has_errors()` around it or an `if has_errors() {{ return; }}` right before it) or anything else -/
def driverPhases : List (String × String) := [{", ".join("(%s, %s)" % (q(n), q(g)) for n, g in rows)}]
inductive StatusPat where
  | code (n : Nat) | anyCode | noCode | any
  deriving DecidableEq, Repr
/-- arms of `match output.status.code()` in `collect_plugin_output`: alternatives of the pattern, and whether the arm is `Ok(output.stdout)` -/
def collectArms : List (List StatusPat × Bool) := [{arms_lean}]
/-- `if !output.stderr.is_empty() {{ … return Err(..) }}` stands in front of that match -/
def collectStderrCheck : Bool := {"true" if stderr_check else "false"}
/-- `action` strings of the `Error::IO` diagnostics built in main.rs, in source order -/
def driverIoActions : List String := [{", ".join(q(a) for a in actions)}]
end Slicec.Gen
"""
    return text, len(conj) + len(rows) + len(arms) + 1 + len(actions)


# C03: add this function to translator/extract.py (before `TABLES = {`) and the entry
#     "ResolveKinds": gen_resolve_kinds,
# to TABLES. It uses the helpers already in extract.py (read, block_after, fn_body, ExtractionError, re).

def gen_resolve_kinds(repo):
    """C03: which AST node variants convert to `WeakPtr<dyn Type>`, the primitive keys `Ast::create` installs,
    the element type each kind of patch requires, and the codes of the three resolution errors"""
    T = "ResolveKinds"
    rel = "slicec/src/ast/node.rs"
    src = read(repo, rel, T)
    m = re.search(r"impl<'a>\s*TryFrom<&'a\s+Node>\s*for\s*WeakPtr<dyn\s+Type>", src)
    if not m:
        raise ExtractionError(T, rel, "TryFrom<&Node> for WeakPtr<dyn Type> not found")
    body = block_after(src, m.end())
    if body is None:
        raise ExtractionError(T, rel, "impl block not found")
    type_variants = re.findall(r"Node::(\w+)\(\w+\)\s*=>\s*Ok\(", body)
    if not type_variants or not re.search(r"_\s*=>\s*Err\(LookupError::TypeMismatch", body):
        raise ExtractionError(T, rel, "match arms of the dyn Type conversion not understood")
    mm = re.search(r"generate_node_enum!\s*\{([^}]*)\}", src)
    if not mm:
        raise ExtractionError(T, rel, "generate_node_enum! invocation not found")
    all_variants = [v.strip() for v in mm.group(1).split(",") if v.strip()]

    rel2 = "slicec/src/ast/mod.rs"
    src2 = read(repo, rel2, T)
    cbody = fn_body(src2, "create", T, rel2, r"Ast")
    keys = re.findall(r'\(\s*"(\w+)"\.to_owned\(\)\s*,\s*(\d+)\s*\)', cbody)
    elems = re.findall(r"Node::Primitive\(OwnedPtr::new\(Primitive::(\w+)\)\)", cbody)
    if not keys or len(keys) != len(elems) or sorted(int(i) for _, i in keys) != list(range(len(keys))):
        raise ExtractionError(T, rel2, "primitive entries of Ast::create not understood")
    prim_keys = [k for k, _ in sorted(keys, key=lambda x: int(x[1]))]
    for k, e in zip(prim_keys, elems):
        if k.lower() != e.lower():
            raise ExtractionError(T, rel2, f"lookup key `{k}` does not index Primitive::{e}")

    rel3 = "slicec/src/patchers/type_ref_patcher.rs"
    src3 = read(repo, rel3, T)
    m3 = re.search(r"enum\s+PatchKind\b", src3)
    if not m3:
        raise ExtractionError(T, rel3, "enum PatchKind not found")
    pbody = block_after(src3, m3.end())
    wants = re.findall(r"(\w+)\(\s*(?:Vec<|Option<)?\s*Patch<([^>]+)>", pbody or "")
    if len(wants) < 5:
        raise ExtractionError(T, rel3, "PatchKind variants not understood")
    rbody = fn_body(src3, "resolve_definition", T, rel3, r"TypeRefPatcher")
    # its first parameter is the reference; the unpatched identifier is bound from `<ref>.definition`: names are read, not assumed
    rparams = fn_params(src3, "resolve_definition", T, rel3, r"TypeRefPatcher")
    ref = rparams[0] if rparams else "type_ref"
    im = re.search(r"TypeRefDefinition::Unpatched\(\s*(\w+)\s*\)\s*=>?\s*&?\s*" + re.escape(ref) + r"\.definition\b", rbody) or \
        re.search(r"match\s*&?\s*" + re.escape(ref) + r"\.definition\s*\{[^{}]*?TypeRefDefinition::Unpatched\(\s*(\w+)\s*\)\s*=>", rbody)
    ident = im.group(1) if im else "identifier"
    fm = re.search(r"find_node_with_scope\(\s*&\s*" + re.escape(ident) + r"\.value\s*,\s*([^(),]+(?:\(\s*\))?)\s*\)", rbody)
    scope_arg = re.sub(r"\s+", "", fm.group(1)) if fm else ""
    if re.fullmatch(r"[a-z_]\w*", scope_arg):      # a local: it stands for the expression of its single immutable binding
        binds = re.findall(r"\blet\s+(mut\s+)?" + re.escape(scope_arg) + r"\s*(?::[^=;]+)?=(?!=)\s*([^;]+);", rbody[:fm.start()])
        if len(binds) == 1 and not binds[0][0]:
            scope_arg = re.sub(r"\s+", "", binds[0][1])
    if scope_arg != ref + ".module_scope()":
        raise ExtractionError(T, rel3, "resolve_definition no longer looks the identifier up in the reference's module scope")

    rel4 = "slicec/src/diagnostics/errors.rs"
    src4 = read(repo, rel4, T)
    codes = dict((name, code) for code, name in re.findall(r'"(E\d+)"\s*,\s*(\w+)\s*,', src4))
    for need in ("DoesNotExist", "TypeMismatch", "SelfReferentialTypeAliasNeedsConcreteType"):
        if need not in codes:
            raise ExtractionError(T, rel4, f"code of Error::{need} not found")

    def q(x):
        return '"' + x + '"'
    text = f"""-- GENERATED by translator/extract.py from slicec/src/ast/node.rs, ast/mod.rs, patchers/type_ref_patcher.rs, diagnostics/errors.rs — do not edit.
namespace Slicec.Gen
/-- variants of `Node` (generate_node_enum!) -/
def nodeVariants : List String := [{", ".join(q(x) for x in all_variants)}]
/-- variants of `Node` that `TryFrom<&Node> for WeakPtr<dyn Type>` accepts -/
def typeNodeVariants : List String := [{", ".join(q(x) for x in type_variants)}]
/-- keys of the primitives installed by `Ast::create`, in index order -/
def astPrimitiveKeys : List String := [{", ".join(q(x) for x in prim_keys)}]
/-- `PatchKind` variants with the element type their patch requires -/
def patchWants : List (String × String) := [{", ".join("(" + q(a) + ", " + q(b.strip()) + ")" for a, b in wants)}]
def codeDoesNotExist : String := {q(codes["DoesNotExist"])}
def codeTypeMismatch : String := {q(codes["TypeMismatch"])}
def codeSelfReferentialAlias : String := {q(codes["SelfReferentialTypeAliasNeedsConcreteType"])}
end Slicec.Gen
"""
    return text, len(all_variants) + len(type_variants) + len(prim_keys) + len(wants) + 3


def fn_body_after_params(src, name, table, rel):
    """like fn_body, for signatures whose parameter list contains braces (destructuring patterns)"""
    m = re.search(r"\bfn\s+" + re.escape(name) + r"\b", src)
    if not m:
        raise ExtractionError(table, rel, f"fn {name} not found")
    params = block_after(src, m.end(), "(", ")")
    if params is None:
        raise ExtractionError(table, rel, f"parameter list of fn {name} not found")
    b = block_after(src, src.find("(", m.end()) + len(params) + 2)
    if b is None:
        raise ExtractionError(table, rel, f"body of fn {name} not found")
    return b


def split_statements(text):
    """the top-level statements of a block's text: each ends at a `;` at depth 0 or at the `}` that closes a block statement
    (`if .. {..} else {..}`, `match .. {..}`, `for .. {..}`); a `;` after such a `}` is dropped"""
    out, depth, start = [], 0, 0
    for i, ch in code_chars(text):
        if ch in "{([":
            depth += 1
        elif ch in "})]":
            depth -= 1
            if depth == 0 and ch == "}":
                rest = text[i + 1:].lstrip()
                if rest.startswith(("else", ".", "?", ";")):
                    continue
                out.append(text[start:i + 1])
                start = i + 1
        elif ch == ";" and depth == 0:
            out.append(text[start:i + 1])
            start = i + 1
    out.append(text[start:])
    return [re.sub(r"\}\s*;$", "}", x.strip()) for x in out if x.strip()]


def top_level_groups(src, open_ch="(", close_ch=")"):
    """balanced top-level groups of src (string literals skipped), without their delimiters"""
    out, i = [], 0
    while True:
        j = src.find(open_ch, i)
        if j < 0:
            return out
        # do not start inside a string literal
        k, in_str = i, False
        while k < j:
            if src[k] == "\\" and in_str:
                k += 1
            elif src[k] == '"':
                in_str = not in_str
            k += 1
        if in_str:
            e = src.find('"', j)
            if e < 0:
                return out
            i = e + 1
            continue
        b = block_after(src, j, open_ch, close_ch)
        if b is None:
            return out
        out.append(b)
        i = j + len(b) + 2



def allow_argument_validity(pf, table, rel):
    """the validity test of `Allow::parse_from`, read from its canonical form `pf` (rustcanon.canon; `$2` = args): returns
    (loop variable, [identifiers that are rejected although they are allowable]). An argument is valid when it is one of
    `Lint::ALLOWABLE_LINT_IDENTIFIERS` and not one of the rejected identifiers, and an invalid one is reported; spellings:
      (1) `let mut v = ALLOWABLE.contains(&a.as_str()); if a == "X" { v = false; } .. if !v {`
      (2) `let v = ALLOWABLE.contains(&a.as_str()) && a != "X" ..; if !v {`
      (3) `if !ALLOWABLE.contains(&a.as_str()) || a == "X" .. {`"""
    contains = r"Lint::ALLOWABLE_LINT_IDENTIFIERS\.contains\(&(?P<a>\$\d+)\.as_str\(\)\)"
    bad = "Allow::parse_from: the validity test of an argument has an unexpected shape"
    m = re.search(r"for (?P<a0>\$\d+) in \$2\{.*?let mut (?P<v>\$\d+)=" + contains + r";", pf)
    if m and m.group("a0") == m.group("a"):
        a, v = re.escape(m.group("a")), re.escape(m.group("v"))
        rejected = re.findall(r"if " + a + r'=="(\w+)"\{' + v + r"=false;\}", pf)
        if len(re.findall(v + r"=(?!=)", pf)) != 1 + len(rejected) or not re.search(r"if!" + v + r"\{", pf):
            raise ExtractionError(table, rel, "Allow::parse_from: the validity flag is assigned or used in a way that is not understood")
        return m.group("a"), rejected
    m = re.search(r"for (?P<a0>\$\d+) in \$2\{.*?let (?P<v>\$\d+)=" + contains + r'(?P<ne>(?:&&(?P=a)!="\w+")*);', pf)
    if m and m.group("a0") == m.group("a"):
        v = re.escape(m.group("v"))
        if len(re.findall(v + r"=(?!=)", pf)) != 1 or not re.search(r"if!" + v + r"\{", pf):
            raise ExtractionError(table, rel, "Allow::parse_from: the validity flag is assigned or used in a way that is not understood")
        return m.group("a"), re.findall(r'!="(\w+)"', m.group("ne"))
    m = re.search(r"for (?P<a0>\$\d+) in \$2\{.*?if!" + contains + r'(?P<eq>(?:\|\|(?P=a)=="\w+")*)\{', pf)
    if m and m.group("a0") == m.group("a"):
        return m.group("a"), re.findall(r'=="(\w+)"', m.group("eq"))
    raise ExtractionError(table, rel, bad)


def gen_lints(repo):
    """lint kinds, allowable identifiers, default levels, the level-rewrite shape of `into_updated`, the scope
    expression recorded at every lint creation site, `allow` argument validation and attribute inheritance (C13)"""
    T = "Lints"
    rel = "slicec/src/diagnostics/lints.rs"
    src = read(repo, rel, T)
    m = re.search(r"implement_diagnostic_functions!\s*\(", src)
    if not m:
        raise ExtractionError(T, rel, "implement_diagnostic_functions!( not found")
    blk = block_after(src, m.end() - 1, "(", ")")
    if blk is None or not re.match(r"\s*Lint\s*,", blk):
        raise ExtractionError(T, rel, "implement_diagnostic_functions!(Lint, ...) has an unexpected shape")
    kinds = []
    for g in top_level_groups(blk):
        mk = re.match(r"\s*([A-Z]\w*)\s*,", g)
        if not mk:
            raise ExtractionError(T, rel, "a lint row does not start with its kind: " + g.strip()[:40])
        kinds.append(mk.group(1))
    if not kinds or len(set(kinds)) != len(kinds):
        raise ExtractionError(T, rel, "no lint kinds / repeated lint kinds")
    body = fn_body(src, "get_default_level", T, rel, r"Lint")
    # arms `Self::A { .. } | Self::B(..) => DiagnosticLevel::X` (one kind or an or-pattern per arm; the value plain or in a block)
    levels = {}
    for pats, lv in re.findall(r"((?:\|?\s*Self::\w+\s*(?:\{[^}]*\}|\([^)]*\))?\s*)+)=>\s*\{?\s*DiagnosticLevel::(\w+)", body):
        for k in re.findall(r"Self::(\w+)", pats):
            levels[k] = lv
    wild = re.search(r"\b_\s*=>\s*\{?\s*DiagnosticLevel::(\w+)", body)
    rows = []
    for k in kinds:
        lv = levels.get(k) or (wild.group(1) if wild else None)
        if lv not in ("Error", "Warning", "Allowed"):
            raise ExtractionError(T, rel, f"get_default_level: no level understood for {k}")
        rows.append((k, lv))

    rel2 = "slicec/src/diagnostics/mod.rs"
    msrc = read(repo, rel2, T)
    m = re.search(r"ALLOWABLE_LINT_IDENTIFIERS\s*:\s*\[\s*&'static\s+str\s*;\s*(\d+)\s*\]\s*=\s*\[(.*?)\]\s*;", msrc, re.S)
    if not m:
        raise ExtractionError(T, rel2, "ALLOWABLE_LINT_IDENTIFIERS array not found")
    # expected: string literals followed by the splice `$(stringify!($kind)),*`
    joined = re.sub(r"\s+", "", m.group(2))
    ms = re.match(r'((?:"[^"]*",)*)\$\(stringify!\(\$kind\)\),\*$', joined)
    if not ms:
        raise ExtractionError(T, rel2, "ALLOWABLE_LINT_IDENTIFIERS is not `[<literals>, $(stringify!($kind)),*]`")
    lits = re.findall(r'"([^"]*)"', ms.group(1))
    allowable = lits + kinds
    if int(m.group(1)) != len(allowable):
        raise ExtractionError(T, rel2, f"ALLOWABLE_LINT_IDENTIFIERS declares {m.group(1)} entries, {len(allowable)} understood")
    if not re.search(r"\$\(\s*implement_diagnostic_functions!\(@error\s+Lint::\$kind\s*,\s*\$\(\$variant\),\*\)\s*=>\s*stringify!\(\$kind\)", msrc):
        raise ExtractionError(T, rel2, "Lint::code() is not `stringify!($kind)`")

    # ---- the level rewrite ------------------------------------------------------------------------
    rel3 = "slicec/src/diagnostics/diagnostic.rs"
    dsrc = read(repo, rel3, T)
    upd = fn_body(dsrc, "into_updated", T, rel3, r"Diagnostics")
    upd_params = fn_params(dsrc, "into_updated", T, rel3, r"Diagnostics")
    if len(upd_params) != 3:
        raise ExtractionError(T, rel3, f"into_updated: parameters (ast, files, options) expected, found {upd_params}")
    # Everything below is compared up to the names of locals, parameters and closure parameters, layout, field shorthand and
    # single-use locals (translator/rustcanon.py); what is expected is written as Rust source next to it.
    # the two helpers are nested fns of into_updated or private free fns of the file (an item can be hoisted out of a body without
    # changing anything: a nested fn captures nothing)
    def helper_item(name):
        if re.search(r"\bfn\s+" + re.escape(name) + r"\b", upd):
            return fn_item(upd, name, T, rel3)
        return fn_item(dsrc, name, T, rel3)
    by_params, by_body = helper_item("is_lint_allowed_by")
    by_names = rustcanon.param_names(by_params)
    EXACT = 'identifiers.any(|identifier| identifier == "HOLE1" || identifier == lint.code())'
    FOLD = 'identifiers.any(|identifier| identifier.eq_ignore_ascii_case("HOLE1") || identifier.eq_ignore_ascii_case(lint.code()))'
    # `lint.code()` has no effect and does not depend on the identifier: it may be taken out of the closure into a local
    EXACT_HOISTED = 'let code = lint.code(); identifiers.any(|identifier| identifier == "HOLE1" || identifier == code)'
    FOLD_HOISTED = 'let code = lint.code(); identifiers.any(|identifier| identifier.eq_ignore_ascii_case("HOLE1") || identifier.eq_ignore_ascii_case(code))'
    mexact = (rustcanon.match(by_body, EXACT, by_names, ["identifiers", "lint"])
              or rustcanon.match(by_body, EXACT_HOISTED, by_names, ["identifiers", "lint"])) if len(by_names) == 2 else None
    mfold = (rustcanon.match(by_body, FOLD, by_names, ["identifiers", "lint"])
             or rustcanon.match(by_body, FOLD_HOISTED, by_names, ["identifiers", "lint"])) if len(by_names) == 2 else None
    if mexact:
        all_kw, ignore_case = mexact[0], False
    elif mfold:
        all_kw, ignore_case = mfold[0], True
    else:
        raise ExtractionError(T, rel3, "is_lint_allowed_by: comparison not understood: " + re.sub(r"\s+", "", by_body)[:120])
    if all_kw not in lits:
        raise ExtractionError(T, rel3, f"the catch-all identifier `{all_kw}` is not an allowable identifier")
    bya_params, bya_body = helper_item("is_lint_allowed_by_attributes")
    bya = rustcanon.canon(bya_body, rustcanon.param_names(bya_params))          # $1 = the attributable, $2 = the lint
    if not (re.search(r"\$1\.all_attributes\(\)", bya) and re.search(r"\.filter_map\(\|(\$\d+)\|\1\.downcast::<attributes::Allow>\(\)\)", bya)
            and re.search(r"\.any\(\|(\$\d+)\|is_lint_allowed_by\(\1\.allowed_lints\.iter\(\),\$2\)\)", bya)):
        raise ExtractionError(T, rel3, "is_lint_allowed_by_attributes has an unexpected shape")
    loop_m = re.search(r"for\s+(\w+)\s+in\s+&mut\s+self\.0\s*(?=\{)", upd)
    if not loop_m:
        raise ExtractionError(T, rel3, "into_updated: loop over the diagnostics not found")
    dvar = loop_m.group(1)
    loop_raw = block_after(upd, loop_m.end()) or ""
    # the loop body is exactly one `if let DiagnosticKind::Lint(<lint>) = &<d>.kind { .. }` (or the `match` with an empty `_` arm)
    lm = re.fullmatch(r"\s*if\s+let\s+DiagnosticKind::Lint\(\s*(\w+)\s*\)\s*=\s*&\s*" + re.escape(dvar) + r"\.kind\s*(?=\{)(.*)", loop_raw, re.S)
    guarded = None
    if lm:
        guarded = block_after(lm.group(2), 0)
        if guarded is None or lm.group(2).strip() != "{" + guarded + "}":
            guarded = None
    else:
        lm = re.fullmatch(r"\s*match\s*&\s*" + re.escape(dvar) + r"\.kind\s*\{\s*DiagnosticKind::Lint\(\s*(\w+)\s*\)\s*=>\s*(?=\{)(.*)", loop_raw, re.S)
        if lm:
            guarded = block_after(lm.group(2), 0)
            if guarded is None or not re.fullmatch(r",?\s*_\s*=>\s*(?:\{\s*\}|\(\))\s*,?\s*\}\s*;?\s*", lm.group(2).strip()[len(guarded) + 2:]):
                guarded = None
    if guarded is None:
        raise ExtractionError(T, rel3, "into_updated: the loop body is not exactly one `if let DiagnosticKind::Lint(lint) = &diagnostic.kind { … }`")
    # inside it: three independent tests, each of which can only set the level to Allowed -- so their order means nothing
    P_ACT = upd_params + [dvar, lm.group(1)]
    P_EXP = ["ast", "files", "options", "diagnostic", "lint"]
    SET = "diagnostic.level = DiagnosticLevel::Allowed;"
    UNITS = {
        "command line": ["if is_lint_allowed_by(options.allowed_lints.iter(), lint) { %s }" % SET],
        "file attributes": ["if let Some(span) = diagnostic.span() { let file = files.iter().find(|f| f.relative_path == span.file).expect(\"no file\");"
                            " if is_lint_allowed_by_attributes(file, lint) { %s } }" % SET],
        "scope attributes": ["if let Some(scope) = diagnostic.scope() { if let Ok(entity) = ast.find_element::<dyn Entity>(scope) {"
                             " if is_lint_allowed_by_attributes(entity, lint) { %s } } }" % SET,
                             "if let Some(scope) = diagnostic.scope() { match ast.find_element::<dyn Entity>(scope) {"
                             " Ok(entity) if is_lint_allowed_by_attributes(entity, lint) => { %s } _ => {} } }" % SET,
                             "if let Some(scope) = diagnostic.scope() { match ast.find_element::<dyn Entity>(scope) {"
                             " Ok(entity) if is_lint_allowed_by_attributes(entity, lint) => { %s }, _ => {}, } }" % SET,
                             "if let Some(scope) = diagnostic.scope() { if let Ok(entity) = ast.find_element::<dyn Entity>(scope) {"
                             " if is_lint_allowed_by_attributes(entity, lint) { %s } }; }" % SET],
    }
    expected = {rustcanon.canon(src_, P_EXP): what for what, alts in UNITS.items() for src_ in alts}
    seen_units = []
    for stmt in split_statements(guarded):
        what = expected.get(rustcanon.canon(stmt, P_ACT))
        if what is None:
            raise ExtractionError(T, rel3, "into_updated: statement not understood: " + re.sub(r"\s+", " ", stmt)[:90])
        seen_units.append(what)
    if sorted(seen_units) != sorted(UNITS):
        raise ExtractionError(T, rel3, f"into_updated: expected one test each for {sorted(UNITS)}, found {seen_units}")
    if len(re.findall(r"\.level\s*=[^=]", upd)) != 3:
        raise ExtractionError(T, rel3, "into_updated: the loop body is not a single `if let Lint` with three level assignments")
    # `fn new` of `impl Diagnostic` (the file also has `Diagnostics::new`; which comes first in the file is immaterial)
    newb = rustcanon.canon(fn_body(dsrc, "new", T, rel3, r"Diagnostic"), fn_params(dsrc, "new", T, rel3, r"Diagnostic"))
    if not re.search(r"DiagnosticKind::Error\((?:_|\.\.)\)=>DiagnosticLevel::Error,", newb) or \
       not re.search(r"DiagnosticKind::Lint\((\$\d+)\)=>\1\.get_default_level\(\),", newb):
        raise ExtractionError(T, rel3, "Diagnostic::new: initial level has an unexpected shape")

    # ---- scope recorded at every lint creation site -----------------------------------------------
    base = os.path.join(repo, "slicec", "src")
    sites = []
    for dirpath, _, files in sorted(os.walk(base)):
        for fn in sorted(files):
            if not fn.endswith(".rs"):
                continue
            relf = os.path.relpath(os.path.join(dirpath, fn), repo)
            if relf in (rel, rel2):
                continue
            fsrc = strip_test_modules(read(repo, relf, T))
            for mm in re.finditer(r"\.set_scope\(", fsrc):
                arg = block_after(fsrc, mm.end() - 1, "(", ")")
                # the statement that builds the diagnostic: back to the nearest `Diagnostic::new(` / construct_lint_from(
                back = fsrc[:mm.start()]
                a = back.rfind("Diagnostic::new(")
                b = back.rfind("construct_lint_from(")
                if max(a, b) < 0:
                    raise ExtractionError(T, relf, "set_scope without a diagnostic constructor before it")
                if b > a:
                    kind = "MalformedDocComment"
                    head = fsrc[b:mm.start()]
                else:
                    head = fsrc[a:mm.start()]
                    mk = re.match(r"Diagnostic::new\(\s*Lint::(\w+)", head)
                    if not mk:
                        raise ExtractionError(T, relf, "set_scope on something that is not a lint: " + head[:50])
                    kind = mk.group(1)
                if "push_into" in head:
                    raise ExtractionError(T, relf, "set_scope could not be attributed to its diagnostic")
                arg = re.sub(r"\s+", "", arg)
                # what is recorded is said by the method; the receiver, when it is a plain local, has a name without meaning: it is
                # spelled `entity` (for `.parser_scoped_identifier()`) / `type_ref` (for `.parser_scope()`) whatever the code calls it
                rm_ = re.fullmatch(r"[a-z_]\w*\.(parser_scoped_identifier|parser_scope)\(\)", arg)
                if rm_:
                    arg = {"parser_scoped_identifier": "entity", "parser_scope": "type_ref"}[rm_.group(1)] + "." + rm_.group(1) + "()"
                sites.append((kind, relf[len("slicec/src/"):], arg))
            # every lint creation without a scope must be listed too
            for mm in re.finditer(r"Lint::(\w+)\s*\{", fsrc):
                stmt = fsrc[mm.start():]
                end = stmt.find("push_into")
                seg = stmt[:end if end >= 0 else 400]
                if "set_scope" not in seg:
                    sites.append((mm.group(1), relf[len("slicec/src/"):], "-" if "set_span" not in seg else "-span"))
    # construct_lint_from creates MalformedDocComment without scope; the scope is attached by its (only) caller
    sites = [s for s in sites if not (s[1] == "parsers/comments/mod.rs" and s[0] == "MalformedDocComment")]
    psrc = read(repo, "slicec/src/parsers/comments/mod.rs", T)
    # however many times the constructor is written (once per error case, or once after a match that computes the message):
    # every lint this file creates is a MalformedDocComment and none of them is given a scope here
    if set(re.findall(r"\bLint::(\w+)", psrc)) != {"MalformedDocComment"} or "set_scope" in psrc:
        raise ExtractionError(T, "slicec/src/parsers/comments/mod.rs", "construct_lint_from has an unexpected shape")
    relr = "slicec/src/parsers/slice/grammar.rs"
    grs = read(repo, relr, T)
    # $1 = the parser, $2 = the element's identifier; the scoped identifier goes through a local (any name) or straight into the call
    gsrc = rustcanon.canon(fn_body(grs, "parse_doc_comment", T, relr), fn_params(grs, "parse_doc_comment", T, relr))
    scoped = r"get_scoped_identifier\(\$2,&\$1\.current_scope\.parser_scope\)"
    via = re.search(r"let (\$\d+)=" + scoped + ";", gsrc)
    if not (re.search(r"CommentParser::new\(\$1\.file_name,&" + scoped + r",\$1\.diagnostics\)", gsrc)
            or (via and re.search(r"CommentParser::new\(\$1\.file_name,&" + re.escape(via.group(1)) + r",\$1\.diagnostics\)", gsrc))):
        raise ExtractionError(T, relr, "parse_doc_comment does not hand the element's scoped identifier to the comment parser")
    # ---- the parser scope in which type references are written (grammar.lalrpop) ----------------------
    # `Deprecated` records `type_ref.parser_scope()`; a `TypeRef` copies `parser.current_scope`, which `ContainerIdentifier`
    # extends by the identifier it reads and `ContainerEnd` restores. So the scope of a written type reference is a fact of
    # the grammar: is the reference between the `ContainerIdentifier` and the `ContainerEnd` of its own production or not.
    relg = "slicec/src/parsers/slice/grammar.lalrpop"
    gram = read(repo, relg, T)
    # $1 = the parser (first parameter); field shorthand is written out and a single-use local is inlined by the canonical form
    ctr = rustcanon.canon(fn_body(grs, "construct_type_ref", T, relr), fn_params(grs, "construct_type_ref", T, relr))
    if not re.search(r"TypeRef\{[^{}]*\bscope:\$1\.current_scope\.clone\(\),", ctr):
        raise ExtractionError(T, relr, "construct_type_ref does not store `parser.current_scope.clone()` as the reference's scope")
    relu = "slicec/src/grammar/util.rs"
    usrc = read(repo, relu, T)
    if not rustcanon.same(fn_body(usrc, "push_scope", T, relu, r"Scope"),
                          'if !self.parser_scope.is_empty() { self.parser_scope.push_str("::"); } self.parser_scope.push_str(scope);',
                          fn_params(usrc, "push_scope", T, relu, r"Scope"), ["scope"]):
        raise ExtractionError(T, relu, "Scope::push_scope is not `parser_scope += \"::\" (unless empty) + scope`")
    pop = rustcanon.canon(fn_body(usrc, "pop_scope", T, relu, r"Scope"))
    pm = re.search(r'if let Some\((\$\d+)\)=self\.parser_scope\.rfind\("::"\)\{', pop)
    if not (pm and ("self.parser_scope.truncate(%s);" % pm.group(1)) in pop and pop.endswith("self.parser_scope.clear();}")):
        raise ExtractionError(T, relu, "Scope::pop_scope does not remove the last `::segment`")

    def production(name):
        mh = re.search(r"^(?:pub\s+)?" + name + r"\s*(?::[^=;{]*?)?=\s*\{", gram, re.M)
        if not mh:
            raise ExtractionError(T, relg, f"production {name} not found")
        blk = block_after(gram, mh.end() - 1)
        if blk is None:
            raise ExtractionError(T, relg, f"production {name}: unbalanced block")
        return blk

    def single_alternative(name):
        """(symbols, action) of a production with one alternative; white space, the braces around the action, a closing `;` inside
        it and the comma after it are layout"""
        alts = _split_alternatives(production(name), T, relg, name)
        if len(alts) != 1:
            raise ExtractionError(T, relg, f"{name}: one alternative expected, found {len(alts)}")
        return re.sub(r"\s+", "", alts[0][0]), re.sub(r"\s+", "", alts[0][1]).rstrip(";")

    ci_syms, ci_act = single_alternative("ContainerIdentifier")
    nm = re.fullmatch(r"<(\w+):Identifier>", ci_syms)         # the identifier may be bound by name instead of `<>`
    ci_ok = (ci_syms == "Identifier" and ci_act == "parser.current_scope.push_scope(&<>.value);<>") or \
        (nm and ci_act == "parser.current_scope.push_scope(&%s.value);%s" % (nm.group(1), nm.group(1)))
    if not ci_ok:
        raise ExtractionError(T, relg, "ContainerIdentifier is not `Identifier => { parser.current_scope.push_scope(&<>.value); <> }`")
    ce_syms, ce_act = single_alternative("ContainerEnd")
    if ce_syms != "" or ce_act != "parser.current_scope.pop_scope()":
        raise ExtractionError(T, relg, "ContainerEnd is not `=> parser.current_scope.pop_scope()`")

    def flat_symbols(text):
        """terminals and nonterminals of an alternative in source order; bindings, locations and repetition marks dropped"""
        t = re.sub(r"<\s*(?:mut\s+)?[a-z_]\w*\s*:", "<", text)
        t = re.sub(r"@[LR]\b", " ", t)
        toks = re.findall(r'"[^"]*"|[A-Za-z_]\w*', t)
        left = re.sub(r'"[^"]*"|[A-Za-z_]\w*|[<>()*?+\s]', "", t)
        if left:
            raise ExtractionError(T, relg, f"symbols `{' '.join(text.split())}` not understood")
        return toks

    prod_names = re.findall(r"^(?:pub\s+)?([A-Z]\w*)\s*(?:<[^>]*>)?\s*(?::[^=;{]*?)?=\s*\{", gram, re.M)
    typeref_rows, scoped_rows = [], []
    for name in prod_names:
        if name in ("ContainerIdentifier", "ContainerEnd") or not re.fullmatch(r"[A-Z]\w*", name):
            continue
        try:
            blk = production(name)
        except ExtractionError:
            continue        # macro productions `Name<T>` never mention TypeRef directly (checked below)
        for ai, (syms, _action) in enumerate(_split_alternatives(blk, T, relg, name)):
            toks = flat_symbols(syms)
            n_ci, n_ce = toks.count("ContainerIdentifier"), toks.count("ContainerEnd")
            if n_ci == 0 and n_ce == 0:
                cls = "enclosing"
            elif n_ci == 1 and n_ce == 1 and toks[-1] == "ContainerEnd":
                cls = "own"
                a = toks.index("ContainerIdentifier")
                inner = []
                for k in toks[a + 1:-1]:
                    if re.fullmatch(r"[A-Z]\w*", k) and k not in inner:
                        inner.append(k)
                scoped_rows.append((name, inner))
            else:
                raise ExtractionError(T, relg, f"{name}: ContainerIdentifier / ContainerEnd are not paired around the end of the production")
            for k, tok in enumerate(toks):
                if tok != "TypeRef":
                    continue
                if cls == "own" and k < toks.index("ContainerIdentifier"):
                    raise ExtractionError(T, relg, f"{name}: a TypeRef is written before the ContainerIdentifier")
                typeref_rows.append((name, str(ai), cls))
    for mm in re.finditer(r"^([A-Z]\w*)<[^>]*>\s*(?::[^=;{]*?)?=\s*\{", gram, re.M):
        blk = block_after(gram, mm.end() - 1) or ""
        if re.search(r"\b(TypeRef|ContainerIdentifier|ContainerEnd)\b", blk):
            raise ExtractionError(T, relg, f"macro production {mm.group(1)} mentions TypeRef / ContainerIdentifier / ContainerEnd")
    typeref_rows = sorted(set(typeref_rows))
    member_cls = {}
    for name in ("Field", "Parameter", "TypeAlias"):
        cl = sorted(set(c for n, _, c in typeref_rows if n == name))
        if len(cl) != 1:
            raise ExtractionError(T, relg, f"{name}: expected exactly one kind of TypeRef position, found {cl}")
        member_cls[name] = cl[0]
    if all(c == "own" for c in member_cls.values()):
        member_scope = True
    elif all(c == "enclosing" for c in member_cls.values()):
        member_scope = False
    else:
        raise ExtractionError(T, relg, "Field / Parameter / TypeAlias do not agree on the scope their type is parsed in: "
                              + ", ".join(f"{k}={v}" for k, v in sorted(member_cls.items())))

    for k, _, _ in sites:
        if k not in kinds:
            raise ExtractionError(T, rel, f"lint kind {k} is created but not declared")
    for k in kinds:
        if not any(s[0] == k for s in sites):
            raise ExtractionError(T, rel, f"no creation site found for lint {k}")
    sites = sorted(set(sites))

    # ---- `allow` attribute: argument validation, targets --------------------------------------------
    rel4 = "slicec/src/grammar/attributes/allow.rs"
    asrc = read(repo, rel4, T)
    # canonical names: $1 $2 $3 $4 = directive, args, span, diagnostics (the parameters); the loop variable and the validity flag are
    # whatever `for <a> in args` and `let mut <v> = Lint::ALLOWABLE_LINT_IDENTIFIERS.contains(&<a>.as_str());` call them
    pf = rustcanon.canon(fn_body(asrc, "parse_from", T, rel4, r"Allow"), fn_params(asrc, "parse_from", T, rel4, r"Allow"))
    if not re.search(r"Allow\{allowed_lints:\$2\.clone\(\),?\}", pf):
        raise ExtractionError(T, rel4, "Allow::parse_from: validation / stored arguments have an unexpected shape")
    _arg_v, rejected = allow_argument_validity(pf, T, rel4)
    vo = rustcanon.canon(fn_body(asrc, "validate_on", T, rel4, r"Allow"), fn_params(asrc, "validate_on", T, rel4, r"Allow"))
    mv = re.search(r"matches!\(\$1,([^)]*\)(?:\|[^)]*\))*)\)", vo)
    if not mv:
        raise ExtractionError(T, rel4, "Allow::validate_on has an unexpected shape")
    bad_targets = re.findall(r"Attributables::(\w+)\(_\)", mv.group(1))
    if not re.search(r'implement_attribute_kind_for!\(Allow,\s*"allow",\s*true\)', asrc):
        raise ExtractionError(T, rel4, 'implement_attribute_kind_for!(Allow, "allow", true) not found')

    # ---- attribute inheritance (`all_attributes`) ----------------------------------------------------
    rel5 = "slicec/src/grammar/traits.rs"
    tsrc = read(repo, rel5, T)
    am = re.search(r"\(\s*@Contained\s+\$\w+\s*:\s*ty\s*\$\(\s*,\s*\$\(\s*\$\w+\s*:\s*tt\s*\)\s*\+\s*\)\s*\?\s*\)\s*=>\s*(?=\{)", tsrc)
    arm = block_after(tsrc, am.end()) if am else None
    if arm is None or not rustcanon.same(fn_body(arm, "all_attributes", T, rel5),
                                         "let mut attributes_list = self.attributes(); attributes_list.extend(self.parent().all_attributes()); attributes_list"):
        raise ExtractionError(T, rel5, "implement_Attributable_for!(@Contained ..) is not `own ++ parent.all_attributes()`")
    contained, plain = [], []
    edir = os.path.join(repo, "slicec", "src", "grammar", "elements")
    parents = {}
    for fn in sorted(os.listdir(edir)):
        if not fn.endswith(".rs"):
            continue
        es = read(repo, "slicec/src/grammar/elements/" + fn, T)
        for mm in re.finditer(r"implement_Attributable_for!\(\s*(@Contained\s+)?(\w+)", es):
            (contained if mm.group(1) else plain).append(mm.group(2))
        for mm in re.finditer(r"implement_Contained_for!\(\s*(\w+)\s*,\s*([^)]*)\)", es):
            par = re.sub(r"\s+", "", mm.group(2))
            par = {"dynContainer<Field>+'static": "Container<Field>"}.get(par, par)
            parents[mm.group(1)] = par
    for c in contained:
        if c not in parents:
            raise ExtractionError(T, "slicec/src/grammar/elements", f"{c} inherits attributes but has no implement_Contained_for!")
    cont_rows = [(c, parents[c]) for c in sorted(contained)]

    def q(x):
        return '"' + x.replace("\\", "\\\\").replace('"', '\\"') + '"'

    def lst(xs):
        return "[" + ", ".join(xs) + "]"

    text = f"""-- GENERATED by translator/extract.py from slicec/src/diagnostics/{{lints,mod,diagnostic}}.rs, grammar/attributes/allow.rs,
-- grammar/traits.rs, grammar/elements/*.rs, every `set_scope` call site and parsers/slice/grammar.lalrpop — do not edit.
namespace Slicec.Gen

/-- lint kinds in the order of `implement_diagnostic_functions!(Lint, …)`; `Lint::code()` = `stringify!(kind)` -/
def lintKinds : List String := {lst(q(k) for k in kinds)}
/-- `Lint::ALLOWABLE_LINT_IDENTIFIERS` -/
def allowableLintIdentifiers : List String := {lst(q(k) for k in allowable)}
/-- `Lint::get_default_level` as (kind, level) -/
def lintDefaultLevels : List (String × String) := {lst(f"({q(a)}, {q(b)})" for a, b in rows)}
/-- the identifier that names every lint in `is_lint_allowed_by` -/
def allowAllIdentifier : String := {q(all_kw)}
/-- `is_lint_allowed_by` compares with `eq_ignore_ascii_case` (true) or with `==` (false) -/
def allowCompareIgnoresCase : Bool := {"true" if ignore_case else "false"}
/-- (lint kind, file, argument of `.set_scope(…)`; `-` = neither scope nor span, `-span` = span but no scope) per creation site -/
def lintScopeSites : List (String × String × String) := {lst(f"({q(a)}, {q(b)}, {q(c)})" for a, b, c in sites)}
/-- the type of a field / parameter / return-tuple member / type alias is written between the member's own
    `ContainerIdentifier` and `ContainerEnd` (true: its parser scope is the member itself) or in the enclosing scope (false) -/
def memberTypesParsedInMemberScope : Bool := {"true" if member_scope else "false"}
/-- (production, alternative, position) of every `TypeRef` symbol of grammar.lalrpop: `own` = between the production's
    own `ContainerIdentifier` and `ContainerEnd`, `enclosing` = the production has neither -/
def typeRefParseScopes : List (String × String × String) := {lst(f"({q(a)}, {q(b)}, {q(c)})" for a, b, c in typeref_rows)}
/-- productions that open a parser scope, with the nonterminals written inside it -/
def scopedProductions : List (String × List String) := {lst(f"({q(a)}, {lst(q(x) for x in b)})" for a, b in scoped_rows)}
/-- arguments `Allow::parse_from` rejects although they are allowable identifiers -/
def allowAttrRejected : List String := {lst(q(k) for k in rejected)}
/-- `Attributables` variants on which `Allow::validate_on` reports an error -/
def allowInvalidTargets : List String := {lst(q(k) for k in bad_targets)}
/-- element kinds whose `all_attributes()` = own ++ parent's (`implement_Attributable_for!(@Contained T)`), with the parent type -/
def attributeInheritance : List (String × String) := {lst(f"({q(a)}, {q(b)})" for a, b in cont_rows)}
/-- element kinds whose `all_attributes()` = own attributes only -/
def attributeOwnOnly : List String := {lst(q(k) for k in sorted(plain))}

end Slicec.Gen
"""
    return text, len(kinds) + len(allowable) + len(rows) + len(sites) + len(rejected) + len(bad_targets) + len(cont_rows) + len(plain) + 2 \
        + 1 + len(typeref_rows) + len(scoped_rows)


def gen_comment_keywords(repo):
    """tag keywords of the doc-comment lexer: `read_tag_keyword` match arms + the inline/block validity match"""
    T, rel = "CommentKeywords", "slicec/src/parsers/comments/lexer.rs"
    src = read(repo, rel, T)
    body = fn_body(src, "read_tag_keyword", T, rel, r"Lexer")
    # the start of the token is `self.cursor` saved in a local before the '@' is consumed; its name is read, not assumed
    lm = re.search(r"\blet\s+(\w+)\s*=\s*self\.cursor\s*;", body)
    if not lm:
        raise ExtractionError(T, rel, "read_tag_keyword does not save `self.cursor` in a local first")
    start = re.escape(lm.group(1))
    arms = re.findall(r'"([A-Za-z0-9_]+)"\s*=>\s*Ok\(\(\s*' + start + r'\s*,\s*TokenKind::(\w+)\s*,\s*self\.cursor\s*\)\)', body)
    if not arms:
        raise ExtractionError(T, rel, "no `\"kw\" => Ok((<start>, TokenKind::X, self.cursor))` arms in read_tag_keyword")
    if not re.search(r'""\s*=>\s*Err\(\(\s*' + start + r'\s*,\s*ErrorKind::MissingTag', body):
        raise ExtractionError(T, rel, "the `\"\" => MissingTag` arm is gone")
    if not re.search(r'\w+\s*=>\s*Err\(\(\s*' + start + r'\s*,\s*ErrorKind::UnknownTag', body):
        raise ExtractionError(T, rel, "the catch-all UnknownTag arm is gone")
    # `let <inline> = self.mode == LexerMode::InlineTag;` and `let <valid> = match <kind> { TokenKind::X | .. => [!]<inline>, .. }`:
    # the three locals are found by what they are bound to, under whatever names
    inl = re.escape(local_bound_to(body, r"self\.mode\s*==\s*LexerMode::InlineTag\s*;", "`let <inline> = self.mode == LexerMode::InlineTag;`", T, rel))
    def validity_match(text, flag):
        found = None
        for m in re.finditer(r"\bmatch\s+\*?\w+\s*(?=\{)", text):
            blk = block_after(text, m.end())
            if blk is not None and re.search(r"TokenKind::\w+\s*=>\s*!?\s*" + flag + r"\b", blk):
                found = blk
        return found
    vbody = None
    for m in re.finditer(r"\blet\s+\w+\s*=\s*match\s+\*?\w+\s*(?=\{)", body):
        blk = block_after(body, m.end())
        if blk is not None and re.search(r"TokenKind::\w+\s*=>\s*!?\s*" + inl + r"\b", blk):
            vbody = blk
    if vbody is None:
        # the match was moved into a helper method of the lexer to which <inline> is passed (`Self::h(kind, <inline>)`,
        # `self.h(kind, <inline>)`) and whose result is tested in read_tag_keyword: it is read there, <inline> being the helper's
        # parameter in the same position
        for cm in re.finditer(r"\b(?:self\s*\.\s*|Self\s*::\s*)(\w+)\s*\(", body):
            args = block_after(body, cm.end() - 1, "(", ")")
            if args is None:
                continue
            argl = [a.strip() for a in split_top(args) if a.strip()]
            if argl.count(re.sub(r"\\", "", inl)) != 1:
                continue
            try:
                hparams, hbody = fn_item(src, cm.group(1), T, rel, r"Lexer")
            except ExtractionError:
                continue
            hnames = rustcanon.param_names(hparams)
            if len(hnames) != len(argl):
                continue
            hflag = re.escape(hnames[argl.index(re.sub(r"\\", "", inl))])
            blk = validity_match(hbody, hflag)
            if blk is not None:
                vbody, inl = blk, hflag
                break
    if vbody is None:
        raise ExtractionError(T, rel, "validity match `let <valid> = match <kind> { TokenKind::X => [!]<inline>, .. }` not found")
    inline = {}
    for lhs, rhs in re.findall(r'((?:TokenKind::\w+\s*\|?\s*)+)=>\s*(!?\s*' + inl + r')\s*,', vbody):
        for k in re.findall(r'TokenKind::(\w+)', lhs):
            inline[k] = not rhs.strip().startswith("!")
    rows = []
    for kw, tok in arms:
        if tok not in inline:
            raise ExtractionError(T, rel, f"token kind {tok} has no inline/block validity arm")
        rows.append((kw, tok, inline[tok]))
    def chars(w):
        return "[" + ", ".join("'%s'" % c for c in w) + "]"
    def row(r):
        return f'({chars(r[0])}, .{r[1]}, {"true" if r[2] else "false"})'
    kinds = []
    for r in rows:
        if r[1] not in kinds:
            kinds.append(r[1])
    text = f"""-- GENERATED by translator/extract.py from slicec/src/parsers/comments/lexer.rs — do not edit.
namespace Slicec.Gen
/-- the keyword token kinds `read_tag_keyword` can return -/
inductive TagKw where
{chr(10).join("  | " + k for k in kinds)}
  deriving DecidableEq, Repr, Inhabited
/-- doc-comment tag keywords: (text after '@', token kind, valid only inline (true) / only to start a block (false)) -/
def commentTagKeywords : List (List Char × TagKw × Bool) := [{", ".join(row(r) for r in rows)}]
end Slicec.Gen
"""
    return text, len(rows)


# C08 additions to translator/extract.py: paste this block before `TABLES = {` and add the two entries
#     "EncoderShapes": gen_encoder_shapes,
#     "CompilerSchema": gen_compiler_schema,
# to TABLES.

# ------------------------------------------------------------------------------------------------
# C08: Gen.EncoderShapes (definition_types.rs) and Gen.CompilerSchema (slice/Compiler/*.slice)
# ------------------------------------------------------------------------------------------------

def lean_str(x):
    return '"' + x.replace("\\", "\\\\").replace('"', '\\"') + '"'


def split_top(s, sep=","):
    """split at `sep` outside <>, (), [] and {}"""
    out, depth, cur = [], 0, []
    for ch in s:
        if ch in "<([{":
            depth += 1
        elif ch in ">)]}":
            depth -= 1
        if ch == sep and depth == 0:
            out.append("".join(cur))
            cur = []
        else:
            cur.append(ch)
    if "".join(cur).strip():
        out.append("".join(cur))
    return [x.strip() for x in out if x.strip()]


def gen_encoder_shapes(repo):
    """every `pub struct` / `pub enum` / `pub type` of definition_types.rs (fields with types in order, explicit
    discriminants), every `implement_encode_into_for_struct!(X, f, ..)` field list, the types with a hand-written
    `impl EncodeInto for [&]X`, the order of the `encoder.encode*` calls inside each hand-written encoder, and the
    shape of the macro body (fields in the given order, then the tag end marker)."""
    T = "EncoderShapes"
    rel = "slicec/src/definition_types.rs"
    src = read(repo, rel, T)
    # the macro itself: fields in order, then TAG_END_MARKER
    mm = re.search(r"macro_rules!\s*implement_encode_into_for_struct\s*", src)
    if not mm:
        raise ExtractionError(T, rel, "macro implement_encode_into_for_struct not found")
    mbody = block_after(src, mm.end())
    # the metavariables and the encoder parameter are read from the macro itself: `($t:ty $(, $f:ident)* $(,)?) => { .. fn encode_into(self, <e>: ..`
    mv = re.search(r"\(\s*\$(\w+)\s*:\s*ty\s*\$\(\s*,\s*\$(\w+)\s*:\s*ident\s*\)\s*\*\s*(?:\$\(\s*,\s*\)\s*\?\s*)?\)\s*=>", mbody or "")
    en = re.search(r"\bfn\s+encode_into\s*\(\s*self\s*,\s*(\w+)\s*:", mbody or "")
    if not mv or not en or not re.search(r"impl\s+EncodeInto\s+for\s+&\s*\$" + mv.group(1) + r"\b", mbody):
        raise ExtractionError(T, rel, "macro implement_encode_into_for_struct: matcher `($type:ty $(, $field:ident)* $(,)?)` / `impl EncodeInto for &$type` / `fn encode_into(self, encoder: ..)` not found")
    fvar, evar = re.escape(mv.group(2)), re.escape(en.group(1))
    if not re.search(r"\$\(\s*" + evar + r"\.encode\(\s*&\s*self\.\$" + fvar + r"\s*\)\?;\s*\)\*\s*" + evar + r"\.encode_varint\(TAG_END_MARKER\)\?;\s*Ok\(\(\)\)", mbody):
        raise ExtractionError(T, rel, "macro body is not `$(encoder.encode(&self.$field_name)?;)* encoder.encode_varint(TAG_END_MARKER)?; Ok(())`")
    tm = re.search(r"const\s+TAG_END_MARKER\s*:\s*i32\s*=\s*(-?\d+)\s*;", src)
    if not tm:
        raise ExtractionError(T, rel, "TAG_END_MARKER not found")
    src_wo_macro = src[:mm.start()] + src[mm.end() + len(mbody) + 2:]
    structs, tuples = [], []
    for m in re.finditer(r"\bpub\s+struct\s+(\w+)\s*(\{|\()", src_wo_macro):
        name = m.group(1)
        if m.group(2) == "(":
            body = block_after(src_wo_macro, m.end() - 1, "(", ")")
            tuples.append((name, re.sub(r"^\s*pub\s+", "", re.sub(r"\s+", " ", body.strip()))))
            continue
        body = block_after(src_wo_macro, m.end() - 1)
        if body is None:
            raise ExtractionError(T, rel, f"body of struct {name} not found")
        fields = []
        for part in split_top(body):
            fm = re.fullmatch(r"(?:#\[[^\]]*\]\s*)*pub\s+(\w+)\s*:\s*(.+)", part, re.S)
            if not fm:
                raise ExtractionError(T, rel, f"struct {name}: field `{part[:40]}` not understood")
            fields.append((fm.group(1), re.sub(r"\s+", "", fm.group(2))))
        structs.append((name, fields))
    enums = []
    for m in re.finditer(r"((?:#\[[^\]]*\]\s*)*)pub\s+enum\s+(\w+)\s*\{", src_wo_macro):
        name = m.group(2)
        rep = re.search(r"#\[repr\((\w+)\)\]", m.group(1))
        body = block_after(src_wo_macro, m.end() - 1)
        variants = []
        nxt = 0
        for part in split_top(body):
            vm = re.fullmatch(r"(\w+)\s*(?:\(([^)]*)\))?\s*(?:=\s*(\d+))?", part, re.S)
            if not vm:
                raise ExtractionError(T, rel, f"enum {name}: variant `{part[:40]}` not understood")
            disc = int(vm.group(3)) if vm.group(3) is not None else nxt
            nxt = disc + 1
            payload = [re.sub(r"\s+", "", x) for x in split_top(vm.group(2) or "")]
            variants.append((vm.group(1), payload, disc, vm.group(3) is not None))
        enums.append((name, rep.group(1) if rep else "", variants))
    aliases = [(m.group(1), re.sub(r"\s+", "", m.group(2))) for m in re.finditer(r"\bpub\s+type\s+(\w+)\s*=\s*([^;]+);", src_wo_macro)]
    macros = []
    for m in re.finditer(r"implement_encode_into_for_struct!\s*\(", src_wo_macro):
        args = block_after(src_wo_macro, m.end() - 1, "(", ")")
        parts = split_top(args)
        if not parts:
            raise ExtractionError(T, rel, "empty implement_encode_into_for_struct! invocation")
        macros.append((parts[0], parts[1:]))
    struct_names = {n for n, _ in structs}
    for n, fl in macros:
        if n not in struct_names:
            raise ExtractionError(T, rel, f"macro encoder for unknown struct {n}")
        declared = [f for f, _ in dict(structs)[n]]
        if sorted(declared) != sorted(fl):
            raise ExtractionError(T, rel, f"macro encoder of {n} lists {fl}, the struct declares {declared}")
    # hand-written encoders: the sequence of encode calls, as written
    manual = []
    for m in re.finditer(r"impl\s+EncodeInto\s+for\s+&?\s*(\w+)\s*\{", src_wo_macro):
        body = block_after(src_wo_macro, m.end() - 1)
        calls = []
        for c in re.finditer(r"encoder\.(encode(?:_varint|_varuint|_size)?)\(\s*([^;]*?)\s*\)\?", body):
            calls.append(c.group(1) + ":" + re.sub(r"\s+", "", c.group(2)))
        manual.append((m.group(1), calls))
    if len(structs) < 15 or len(enums) < 2 or len(macros) < 10:
        raise ExtractionError(T, rel, "fewer structs / enums / macro encoders than expected were recognised")

    def fl(l):
        return "[" + ", ".join(f"({lean_str(a)}, {lean_str(b)})" for a, b in l) + "]"

    def sl(l):
        return "[" + ", ".join(lean_str(a) for a in l) + "]"

    lines = ["-- GENERATED by translator/extract.py from slicec/src/definition_types.rs — do not edit.",
             "namespace Slicec.Gen", "",
             "/-- `pub struct Name { pub field: Type, … }` in declaration order -/",
             "structure RustStruct where", "  name : String", "  fields : List (String × String)", "  deriving Repr, DecidableEq", "",
             "/-- one enum variant: name, payload types, discriminant, whether the discriminant is written explicitly -/",
             "structure RustVariant where", "  name : String", "  payload : List String", "  disc : Nat", "  explicit : Bool", "  deriving Repr, DecidableEq", "",
             "structure RustEnum where", "  name : String", "  repr : String", "  variants : List RustVariant", "  deriving Repr, DecidableEq", "",
             "def rustStructs : List RustStruct := ["]
    lines.append(",\n".join(f"  ⟨{lean_str(n)}, {fl(f)}⟩" for n, f in structs) + "]")
    lines.append("")
    lines.append("/-- tuple structs: name, inner type -/")
    lines.append(f"def rustTupleStructs : List (String × String) := {fl(tuples)}")
    lines.append("")
    lines.append("def rustEnums : List RustEnum := [")
    lines.append(",\n".join(
        f"  ⟨{lean_str(n)}, {lean_str(r)}, [" + ", ".join(f"⟨{lean_str(v)}, {sl(p)}, {d}, {'true' if e else 'false'}⟩" for v, p, d, e in vs) + "]⟩"
        for n, r, vs in enums) + "]")
    lines.append("")
    lines.append(f"def rustTypeAliases : List (String × String) := {fl(aliases)}")
    lines.append("")
    lines.append("/-- `implement_encode_into_for_struct!(Name, f1, f2, …)`: the fields are encoded in this order, then the tag end marker -/")
    lines.append("def macroEncoders : List (String × List String) := [")
    lines.append(",\n".join(f"  ({lean_str(n)}, {sl(f)})" for n, f in macros) + "]")
    lines.append("")
    lines.append("/-- hand-written `impl EncodeInto for [&]Name`: the `encoder.encode*` calls in textual order (`method:argument`) -/")
    lines.append("def manualEncoders : List (String × List String) := [")
    lines.append(",\n".join(f"  ({lean_str(n)}, {sl(c)})" for n, c in manual) + "]")
    lines.append("")
    lines.append(f"def encoderTagEndMarker : Int := {tm.group(1)}")
    lines.append("")
    # ---- main.rs: the request as a whole -------------------------------------------------------
    rel2 = "slicec/src/main.rs"
    msrc = read(repo, rel2, T)
    # canonical form (translator/rustcanon.py): $1 = the parameter (the parsed files); every local is `$n`, whatever it is called
    body = rustcanon.canon(fn_body(msrc, "encode_generate_code_request", T, rel2), fn_params(msrc, "encode_generate_code_request", T, rel2))
    V = r"(\$\d+)"
    encs = re.findall(r"let mut " + V + r"=Encoder::from\(&mut " + V + r"\);", body)
    if len(encs) != 1:
        raise ExtractionError(T, rel2, "encode_generate_code_request: one `let mut <encoder> = Encoder::from(&mut <buffer>);` expected")
    enc, buf = re.escape(encs[0][0]), re.escape(encs[0][1])
    opn = re.search(enc + r'\.encode\("([^"]*)"\)\?', body)
    if not opn:
        raise ExtractionError(T, rel2, "the operation-name literal `<encoder>.encode(\"…\")?` was not found")
    seq_calls = re.findall(enc + r"\.encode\(&" + V + r"\)\?", body)
    if len(seq_calls) != 2:
        raise ExtractionError(T, rel2, f"expected two `<encoder>.encode(&…)?` calls, found {len(seq_calls)}")
    if body.find(opn.group(0)) > re.search(enc + r"\.encode\(&", body).start():
        raise ExtractionError(T, rel2, "the operation name is not encoded first")
    if len(re.findall(enc + r"\.encode", body)) != 3 or not body.endswith("Ok(%s)" % encs[0][1]):
        raise ExtractionError(T, rel2, "encode_generate_code_request: something else is encoded, or the buffer is not what is returned")
    # the loop runs over the parsed files: `parsed_files`, `&parsed_files`, `parsed_files.iter()`, or the same filtered by
    # `.filter(|f| f.module.is_some())` (the skip of module-less files written as a filter instead of `continue`), given to `for`
    # directly or through a local bound by the statement before it
    lp = re.search(r"for " + V + r" in ([^{};]+)\{", body)
    filter_skips = False
    if lp:
        it = lp.group(2)
        via_local = re.fullmatch(r"\$\d+", it) and it != "$1" and re.search(r"let " + re.escape(it) + r"=([^;{}]+);for " + re.escape(lp.group(1)) + " in ", body)
        if via_local:
            it = via_local.group(1)
        if re.fullmatch(r"\$1\.iter\(\)\.filter\(\|(\$\d+)\|\1\.module\.is_some\(\)\)", it):
            filter_skips = True
        elif not re.fullmatch(r"&?\$1|\$1\.iter\(\)", it):
            lp = None
    cv = lp and re.search(r"let " + V + r"=definition_types::SliceFile::from\(" + re.escape(lp.group(1)) + r"\);", body)
    if not lp or not cv:
        raise ExtractionError(T, rel2, "the conversion loop `for parsed_file in parsed_files { … SliceFile::from(parsed_file) … }` not found")
    pf, conv = re.escape(lp.group(1)), re.escape(cv.group(1))
    # source files go to one vector, reference files to the other: as a `match` on the bool (arms in either order) or as `if`/`else`
    push = V + r"\.push\(" + conv + r"\)[;,]?"
    routing = None
    for pat, swap in ((r"match " + pf + r"\.is_source\{true=>" + push + r"false=>" + push + r"\}", False),
                      (r"match " + pf + r"\.is_source\{false=>" + push + r"true=>" + push + r"\}", True),
                      (r"if " + pf + r"\.is_source\{" + push + r"\}else\{" + push + r"\}", False),
                      (r"if!" + pf + r"\.is_source\{" + push + r"\}else\{" + push + r"\}", True)):
        mm = re.search(pat, body)
        if mm:
            routing = (mm.group(2), mm.group(1)) if swap else (mm.group(1), mm.group(2))     # (vector of sources, vector of references)
            break
    if not routing or len(re.findall(r"\.push\(" + conv + r"\)", body)) != 2:
        raise ExtractionError(T, rel2, "`match parsed_file.is_source { true => X.push(converted_file), false => Y.push(converted_file) }` (or the if/else form) not found")
    skips = bool(re.search(r"if " + pf + r"\.module\.is_none\(\)\{continue;\}", body))
    n_cont = len(re.findall(r"\bcontinue\b", body))
    if n_cont != (1 if skips else 0):
        raise ExtractionError(T, rel2, "an unexpected `continue` in the conversion loop")
    skips = skips or filter_skips
    order = ["sources" if c == routing[0] else "references" if c == routing[1] else "?" for c in seq_calls]
    if "?" in order:
        raise ExtractionError(T, rel2, "the encoded vectors are not the ones filled by the is_source match")
    # spawn_plugin_process: $1 = the plugin, $2 = the payload
    sp = rustcanon.canon(fn_body(msrc, "spawn_plugin_process", T, rel2), fn_params(msrc, "spawn_plugin_process", T, rel2))
    w1 = re.search(V + r"\.write_all\(\$2\)\?;", sp)
    if not w1 or not re.search(r"let mut " + V + r"=Vec::new\(\);let mut " + V + r"=Encoder::from\(&mut \1\);\2\.encode\(definition_types::Arguments\(\$1\.args\.clone\(\)\)\)\?;"
                               + re.escape(w1.group(1)) + r"\.write_all\(&\1\)\?;", sp[w1.end():]) or len(re.findall(r"\.write_all\(", sp)) != 2:
        raise ExtractionError(T, rel2, "spawn_plugin_process: payload then `Arguments(plugin.args.clone())` not found in this order")
    lines.append("/-- `encode_generate_code_request` (main.rs): operation name literal, the order of the two encoded vectors,")
    lines.append("    whether a file without module declaration is skipped; `spawn_plugin_process` writes the payload, then the arguments -/")
    lines.append(f"def requestOpName : String := {lean_str(opn.group(1))}")
    lines.append(f"def requestVectors : List String := {sl(order)}")
    lines.append(f"def requestSkipsModuleless : Bool := {'true' if skips else 'false'}")
    lines.append("def requestThenArguments : Bool := true")
    lines.append("")
    lines.append("end Slicec.Gen")
    text = "\n".join(lines) + "\n"
    rows = len(structs) + len(tuples) + len(enums) + len(aliases) + len(macros) + len(manual) + 5
    return text, rows


# ---- an independent mini-parser for the subset of Slice used by slice/Compiler/*.slice ----------

SLICE_TOKEN = re.compile(r"\s+|//[^\n]*|/\*.*?\*/|(?P<tok>\[\[|\]\]|::|->|\\?[A-Za-z_][A-Za-z0-9_]*|\d+|\"(?:[^\"\\]|\\.)*\"|[{}()\[\]<>,:=?\-])", re.S)


def slice_tokens(text, T, rel):
    toks, i = [], 0
    while i < len(text):
        m = SLICE_TOKEN.match(text, i)
        if not m:
            raise ExtractionError(T, rel, f"unexpected character {text[i]!r} at offset {i}")
        if m.group("tok") is not None:
            toks.append(m.group("tok"))
        i = m.end()
    return toks


class SliceMiniParser:
    def __init__(self, toks, T, rel):
        self.t, self.i, self.T, self.rel = toks, 0, T, rel

    def peek(self, k=0):
        return self.t[self.i + k] if self.i + k < len(self.t) else None

    def next(self):
        tok = self.peek()
        if tok is None:
            raise ExtractionError(self.T, self.rel, "unexpected end of file")
        self.i += 1
        return tok

    def expect(self, tok):
        got = self.next()
        if got != tok:
            raise ExtractionError(self.T, self.rel, f"expected `{tok}`, found `{got}` (token {self.i})")

    def ident(self):
        tok = self.next()
        if not re.fullmatch(r"\\?[A-Za-z_][A-Za-z0-9_]*", tok):
            raise ExtractionError(self.T, self.rel, f"identifier expected, found `{tok}`")
        return tok.lstrip("\\")

    def skip_attributes(self):
        while self.peek() in ("[", "[["):
            close = "]" if self.next() == "[" else "]]"
            while self.next() != close:
                pass

    def scoped(self):
        name = ""
        if self.peek() == "::":
            self.next()
            name = "::"
        name += self.ident()
        while self.peek() == "::":
            self.next()
            name += "::" + self.ident()
        return name

    def type_ref(self):
        """returns (type, optional)"""
        self.skip_attributes()
        tok = self.peek()
        if tok == "Sequence":
            self.next(); self.expect("<"); e = self.type_ref(); self.expect(">")
            ty = ("seq", e)
        elif tok == "Dictionary":
            self.next(); self.expect("<"); k = self.type_ref(); self.expect(","); v = self.type_ref(); self.expect(">")
            ty = ("dict", k, v)
        elif tok == "Result":
            self.next(); self.expect("<"); s = self.type_ref(); self.expect(","); f = self.type_ref(); self.expect(">")
            ty = ("result", s, f)
        else:
            ty = ("name", self.scoped())
        opt = False
        if self.peek() == "?":
            self.next()
            opt = True
        return (ty, opt)

    def member(self):
        """[attrs] [tag(n)] name: [stream] Type"""
        self.skip_attributes()
        tag = None
        if self.peek() == "tag" and self.peek(1) == "(":
            self.next(); self.next(); tag = int(self.next()); self.expect(")")
        name = self.ident()
        self.expect(":")
        stream = False
        if self.peek() == "stream":
            self.next()
            stream = True
        ty, opt = self.type_ref()
        return {"name": name, "ty": ty, "opt": opt, "tag": tag, "stream": stream}

    def member_list(self, close):
        out = []
        while self.peek() != close:
            out.append(self.member())
            if self.peek() == ",":
                self.next()
        self.expect(close)
        return out

    def file(self):
        out = {"module": None, "structs": [], "enums": [], "aliases": [], "ops": []}
        while self.peek() is not None:
            self.skip_attributes()
            mods = set()
            while self.peek() in ("compact", "unchecked"):
                mods.add(self.next())
            kw = self.next()
            if kw == "module":
                out["module"] = self.scoped()
            elif kw == "struct":
                name = self.ident(); self.expect("{")
                out["structs"].append({"name": name, "compact": "compact" in mods, "fields": self.member_list("}")})
            elif kw == "typealias":
                name = self.ident(); self.expect("=")
                ty, opt = self.type_ref()
                out["aliases"].append({"name": name, "ty": ty, "opt": opt})
            elif kw == "enum":
                name = self.ident()
                underlying = None
                if self.peek() == ":":
                    self.next()
                    (u, _o) = self.type_ref()
                    if u[0] != "name":
                        raise ExtractionError(self.T, self.rel, f"enum {name}: underlying type is not a name")
                    underlying = u[1]
                self.expect("{")
                variants = []
                while self.peek() != "}":
                    self.skip_attributes()
                    vname = self.ident()
                    fields = None
                    if self.peek() == "(":
                        self.next()
                        fields = self.member_list(")")
                    value = None
                    if self.peek() == "=":
                        self.next()
                        neg = False
                        if self.peek() == "-":
                            self.next(); neg = True
                        value = int(self.next())
                        value = -value if neg else value
                    variants.append({"name": vname, "fields": fields, "value": value})
                    if self.peek() == ",":
                        self.next()
                self.expect("}")
                out["enums"].append({"name": name, "underlying": underlying, "unchecked": "unchecked" in mods, "compact": "compact" in mods, "variants": variants})
            elif kw == "interface":
                iname = self.ident()
                if self.peek() == ":":
                    self.next(); self.scoped()
                    while self.peek() == ",":
                        self.next(); self.scoped()
                self.expect("{")
                while self.peek() != "}":
                    self.skip_attributes()
                    idem = False
                    if self.peek() == "idempotent":
                        self.next(); idem = True
                    oname = self.ident(); self.expect("(")
                    params = self.member_list(")")
                    rets = []
                    if self.peek() == "->":
                        self.next()
                        if self.peek() == "(":
                            self.next(); rets = self.member_list(")")
                        else:
                            stream = False
                            if self.peek() == "stream":
                                self.next(); stream = True
                            ty, opt = self.type_ref()
                            rets = [{"name": "returnValue", "ty": ty, "opt": opt, "tag": None, "stream": stream}]
                    out["ops"].append({"iface": iname, "name": oname, "idempotent": idem, "params": params, "returns": rets})
                self.expect("}")
            else:
                raise ExtractionError(self.T, self.rel, f"unexpected token `{kw}` at top level")
        return out


SLICE_PRIMS = ["bool", "int8", "uint8", "int16", "uint16", "int32", "uint32", "varint32", "varuint32", "int64", "uint64",
               "varint62", "varuint62", "float32", "float64", "string"]


def gen_compiler_schema(repo):
    T = "CompilerSchema"
    base = os.path.join(repo, "slice", "Compiler")
    if not os.path.isdir(base):
        raise ExtractionError(T, "slice/Compiler", "directory missing")
    files = sorted(f for f in os.listdir(base) if f.endswith(".slice"))
    if not files:
        raise ExtractionError(T, "slice/Compiler", "no .slice file")
    structs, enums, aliases, ops, modules = [], [], [], [], set()
    for fn in files:
        rel = os.path.join("slice", "Compiler", fn)
        text = open(os.path.join(repo, rel), encoding="utf-8").read()
        # doc comments are comments for this purpose
        parsed = SliceMiniParser(slice_tokens(text, T, rel), T, rel).file()
        if parsed["module"] is None:
            raise ExtractionError(T, rel, "no module declaration")
        modules.add(parsed["module"])
        structs += parsed["structs"]; enums += parsed["enums"]; aliases += parsed["aliases"]; ops += parsed["ops"]
    if len(modules) != 1:
        raise ExtractionError(T, "slice/Compiler", f"more than one module: {sorted(modules)}")
    names = [x["name"] for x in structs + enums + aliases]
    if len(set(names)) != len(names):
        raise ExtractionError(T, "slice/Compiler", "a type name is declared twice")

    def ty(t):
        if t[0] == "name":
            n = t[1]
            if n in SLICE_PRIMS:
                return f"(.prim {lean_str(n)})"
            if n.lstrip(":").split("::")[-1] not in names:
                raise ExtractionError(T, "slice/Compiler", f"type `{n}` is not declared in the schema")
            return f"(.named {lean_str(n.lstrip(':').split('::')[-1])})"
        if t[0] == "seq":
            e, eo = t[1]
            return f"(.seq {ty(e)} {'true' if eo else 'false'})"
        if t[0] == "dict":
            (k, ko), (v, vo) = t[1], t[2]
            if ko:
                raise ExtractionError(T, "slice/Compiler", "optional dictionary key")
            return f"(.dict {ty(k)} {ty(v)} {'true' if vo else 'false'})"
        raise ExtractionError(T, "slice/Compiler", f"type constructor `{t[0]}` is not supported by the schema model")

    def field(m):
        tag = "none" if m["tag"] is None else f"(some {m['tag']})"
        return f"⟨{lean_str(m['name'])}, {ty(m['ty'])}, {'true' if m['opt'] else 'false'}, {tag}, {'true' if m['stream'] else 'false'}⟩"

    def fields(ms):
        return "[" + ", ".join(field(m) for m in ms) + "]"

    L = ["-- GENERATED by translator/extract.py from slice/Compiler/*.slice (independent mini-parser) — do not edit.",
         "namespace Slicec.Gen", "",
         "/-- a type as written in the schema; sequences / dictionary values carry the `?` of their element type -/",
         "inductive STy where", "  | prim (name : String)", "  | named (name : String)", "  | seq (elem : STy) (elemOptional : Bool)",
         "  | dict (key value : STy) (valueOptional : Bool)", "  deriving Repr, DecidableEq, Inhabited", "",
         "/-- a field / parameter: name, type, `?`, `tag(n)`, `stream` -/",
         "structure SField where", "  name : String", "  ty : STy", "  optional : Bool", "  tag : Option Nat", "  stream : Bool",
         "  deriving Repr, DecidableEq, Inhabited", "",
         "structure SStruct where", "  name : String", "  compact : Bool", "  fields : List SField", "  deriving Repr, DecidableEq, Inhabited", "",
         "/-- an enumerator: name, associated fields (`none` = no parentheses), explicit value -/",
         "structure SVariant where", "  name : String", "  fields : Option (List SField)", "  value : Option Int", "  deriving Repr, DecidableEq, Inhabited", "",
         "structure SEnum where", "  name : String", "  underlying : Option String", "  unchecked : Bool", "  compact : Bool", "  variants : List SVariant",
         "  deriving Repr, DecidableEq, Inhabited", "",
         "structure SAlias where", "  name : String", "  ty : STy", "  optional : Bool", "  deriving Repr, DecidableEq, Inhabited", "",
         "structure SOp where", "  iface : String", "  name : String", "  params : List SField", "  returns : List SField", "  deriving Repr, DecidableEq, Inhabited", "",
         f"def schemaModule : String := {lean_str(sorted(modules)[0])}",
         f"def schemaFiles : List String := [{', '.join(lean_str(f) for f in files)}]", "",
         "def schemaStructs : List SStruct := ["]
    L.append(",\n".join(f"  ⟨{lean_str(s['name'])}, {'true' if s['compact'] else 'false'}, {fields(s['fields'])}⟩" for s in structs) + "]")
    L.append("")
    L.append("def schemaEnums : List SEnum := [")

    def variant(v):
        fs = "none" if v["fields"] is None else f"(some {fields(v['fields'])})"
        val = "none" if v["value"] is None else f"(some ({v['value']}))"
        return f"⟨{lean_str(v['name'])}, {fs}, {val}⟩"

    def enum(e):
        u = "none" if e["underlying"] is None else f"(some {lean_str(e['underlying'])})"
        return (f"  ⟨{lean_str(e['name'])}, {u}, {'true' if e['unchecked'] else 'false'}, {'true' if e['compact'] else 'false'}, [" +
                ", ".join(variant(v) for v in e["variants"]) + "]⟩")
    L.append(",\n".join(enum(e) for e in enums) + "]")
    L.append("")
    L.append("def schemaAliases : List SAlias := [" + ", ".join(f"⟨{lean_str(a['name'])}, {ty(a['ty'])}, {'true' if a['opt'] else 'false'}⟩" for a in aliases) + "]")
    L.append("")
    L.append("def schemaOps : List SOp := [" + ", ".join(
        f"⟨{lean_str(o['iface'])}, {lean_str(o['name'])}, {fields(o['params'])}, {fields(o['returns'])}⟩" for o in ops) + "]")
    L.append("")
    L.append("end Slicec.Gen")
    text = "\n".join(L) + "\n"
    rows = len(structs) + len(enums) + len(aliases) + len(ops) + sum(len(s["fields"]) for s in structs) + sum(len(e["variants"]) for e in enums)
    return text, rows



def gen_visitor_reach(repo):
    """C04: does the validating visitor also validate the attributes of the type references it does not visit
    (enum underlying type, interface bases)?"""
    T, rel = "VisitorReach", "slicec/src/validators/mod.rs"
    src = read(repo, rel, T)
    IMPL = r"Visitor\s+for\s+ValidatorVisitor"
    ve = fn_body(src, "visit_enum", T, rel, IMPL)
    vi = fn_body(src, "visit_interface", T, rel, IMPL)
    # the visited definition is each method's (only) parameter, under whatever name
    pe, pi = fn_params(src, "visit_enum", T, rel, IMPL), fn_params(src, "visit_interface", T, rel, IMPL)
    if len(pe) != 1 or len(pi) != 1:
        raise ExtractionError(T, rel, "visit_enum / visit_interface: one parameter expected")
    pe, pi = pe[0], pi[0]
    if not re.search(r"\bvalidate_attributes\(\s*" + re.escape(pe) + r"\s*,", ve) or not re.search(r"\bvalidate_attributes\(\s*" + re.escape(pi) + r"\s*,", vi):
        raise ExtractionError(T, rel, "visit_enum / visit_interface no longer validate the attributes of the definition itself")
    # The question is semantic ("is validate_attributes_of applied to the underlying type / to every base?"), so the call may be
    # written with or without a path prefix, and the reference may be bound by `if let`, `match`, `for` or an iterator adaptor.
    CALL = r"(?:\b\w+\s*::\s*)*\bvalidate_attributes_of\s*\(\s*(\w+)\s*,"

    def applied(body, field, what):
        """True: some validate_attributes_of call receives a name bound from `field`; False: there is no such call at all;
        ExtractionError: there is a call but its argument could not be traced to `field`"""
        f = re.escape(field).replace(r"\.", r"\s*\.\s*")
        src_expr = r"&?\s*" + f + r"(?:\s*\.\s*(?:as_ref|iter)\s*\(\s*\))?"
        args = re.findall(CALL, body)
        if not args:
            return False
        for a in args:
            a = re.escape(a)
            binders = (
                r"\bif\s+let\s+Some\(\s*" + a + r"\s*\)\s*=\s*" + src_expr + r"\s*\{",                       # if let Some(a) = &x.f {
                r"\bmatch\s+" + src_expr + r"\s*\{[^{}]*\bSome\(\s*" + a + r"\s*\)\s*=>",                    # match &x.f { Some(a) =>
                r"\bfor\s+" + a + r"\s+in\s+" + src_expr + r"\s*\{",                                          # for a in &x.f {
                f + r"\s*\.\s*(?:iter|as_ref)\s*\(\s*\)\s*\.\s*(?:for_each|map|inspect)\s*\(\s*\|\s*" + a + r"\s*\|",  # x.f.iter().for_each(|a|
                r"\blet\s+Some\(\s*" + a + r"\s*\)\s*=\s*" + src_expr + r"\s*else\b",                        # let Some(a) = &x.f else
            )
            if any(re.search(b, body) for b in binders):
                return True
        raise ExtractionError(T, rel, f"{what}: validate_attributes_of is called, but its argument is not recognisably bound from `{field}`")

    und = applied(ve, pe + ".underlying", "visit_enum")
    bas = applied(vi, pi + ".bases", "visit_interface")
    if und != bas:
        raise ExtractionError(T, rel, "only one of enum underlying types / interface bases has its attributes validated: not modelled")
    text = "-- GENERATED by translator/extract.py from slicec/src/validators/mod.rs — do not edit.\nnamespace Slicec.Gen\n" \
           "/-- attributes on enum underlying types and interface bases are validated for placement and repetition -/\n" \
           f"def unvisitedTypeRefAttrsValidated : Bool := {'true' if und else 'false'}\nend Slicec.Gen\n"
    return text, 1


def gen_comment_sanitize(repo):
    """C16: in which unit does `sanitize_message_lines` measure and strip the common indentation of doc-comment lines?
    true  = characters, with the blank-line / whitespace-before-link rule (the shape since the repair of D-16a / D-16b),
    false = UTF-8 byte offsets with `unwrap_or_default()` (the shape before). Anything else is not modelled."""
    T, rel = "CommentSanitize", "slicec/src/parsers/comments/grammar.rs"
    src = read(repo, rel, T)
    body = fn_body(src, "sanitize_message_lines", T, rel)
    # the computation of the common indentation may live in private free functions of this file that sanitize_message_lines calls
    # (`let common = helper(&lines);`): their bodies are read in place of the calls, two levels deep
    for _level in range(2):
        pieces, at = [], 0
        for cm in re.finditer(r"(?<![\w.:])([a-z_]\w*)\s*\(", body):
            if cm.start() < at or cm.group(1) == "sanitize_message_lines":
                continue
            items = [it for it in _fn_items(src, cm.group(1)) if it[0] == 0]
            cargs = block_after(body, cm.end() - 1, "(", ")")
            if len(items) != 1 or cargs is None or re.search(r"\bfn\s+$", body[:cm.start()]):
                continue
            pieces.append(body[at:cm.start()] + "{" + items[0][2] + "}")
            at = cm.end() + len(cargs) + 1
        body = "".join(pieces) + body[at:]
    # a test that is first bound to a local used nowhere else (`let b = <test>; if b {`) reads like `if <test> {`
    for lm in list(re.finditer(r"\blet\s+(\w+)\s*(?::\s*bool\s*)?=(?!=)\s*([^;{}]+);\s*if\s+(\w+)\s*\{", body)):
        if lm.group(1) == lm.group(3) and len(re.findall(r"\b" + re.escape(lm.group(1)) + r"\b", body)) == 2:
            body = body.replace(lm.group(0), "if " + lm.group(2).strip() + " {")
    if not re.search(r"MessageComponent::Link\(\s*(?:_|\.\.)\s*\)\s*=>\s*\{\s*(\w+)\s*=\s*0\s*;\s*break\s*;\s*\}", body):
        raise ExtractionError(T, rel, "sanitize_message_lines: the `Link(_) => { common = 0; break; }` arm is gone")
    # What is stripped: `X.replace_range(..V, "")`. V is a *character* boundary iff it is bound by a `let V = …;` whose right-hand side
    # (possibly through one intermediate iterator binding) contains `.char_indices()`, `.nth(<count>)` and `.unwrap_or(<text>.len())`;
    # otherwise V is used as a byte offset. Statement layout (one chain or several lets, line breaks) does not matter.
    strips = re.findall(r"\w+\s*\.\s*replace_range\(\s*\.\.\s*(\w+)\s*,\s*\"\"\s*\)", body)
    lets = {}
    for lm in re.finditer(r"\blet\s+(?:mut\s+)?(\w+)\s*(?::[^=;]+)?=(?!=)\s*", body):   # (lets nest inside closures: scan, don't tile)
        end = body.find(";", lm.end())
        lets[lm.group(1)] = body[lm.end():end if end >= 0 else len(body)]

    def char_boundary(v):
        rhs = lets.get(v)
        if rhs is None:
            return False
        mrecv = re.match(r"\s*(\w+)\s*\.\s*nth\(", rhs)
        chain = rhs + (" " + lets.get(mrecv.group(1), "") if mrecv else "")
        return bool(re.search(r"\.\s*char_indices\(\)", chain) and re.search(r"\.\s*nth\(\s*\w+\s*\)", rhs)
                    and re.search(r"\.\s*unwrap_or\(\s*\w+\.len\(\)\s*\)|\.\s*unwrap_or_else\(\s*\|\s*\|\s*\w+\.len\(\)\s*\)", rhs))

    wsp = r"(?:\|\s*&?\s*(\w+)\s*\|\s*\1\.is_whitespace\(\)|\|(\w+)\|\s*char::is_whitespace\(\s*\*\2\s*\))"
    cnt = r"\w+\.chars\(\)\s*\.count\(\)"
    new = {
        "count": re.search(r"\w+\.chars\(\)\s*\.take_while\(\s*" + wsp + r"\s*\)\s*\.count\(\)", body),
        "skip": re.search(r"if\s+(?:\w+\.len\(\)\s*==\s*1\s*&&\s*(?:\w+\s*==\s*" + cnt + "|" + cnt + r"\s*==\s*\w+)"
                          r"|(?:\w+\s*==\s*" + cnt + "|" + cnt + r"\s*==\s*\w+)\s*&&\s*\w+\.len\(\)\s*==\s*1)\s*\{\s*continue\s*;\s*\}", body),
        "normalise": re.search(r"if\s+(\w+)\s*==\s*usize::MAX\s*\{\s*\1\s*=\s*0\s*;\s*\}", body)
                     or re.search(r"if\s+(\w+)\s*==\s*usize::MAX\s*\{\s*0\s*\}\s*else\s*\{\s*\1\s*\}", body)
                     or re.search(r"if\s+(\w+)\s*!=\s*usize::MAX\s*\{\s*\1\s*\}\s*else\s*\{\s*0\s*\}", body),
        "strip": len(strips) == 1 and char_boundary(strips[0]),
    }
    old = {
        "count": re.search(r"let\s+(\w+)\s*=\s*\w+\.find\(\s*\|(\w+)\s*:\s*char\|\s*!\s*\2\.is_whitespace\(\)\s*\)\s*\.unwrap_or_default\(\)", body),
        "strip": len(strips) >= 1 and not any(char_boundary(v) for v in strips),
    }
    if all(new.values()) and not any(old.values()):
        chars = True
    elif all(old.values()) and not any(new.values()):
        chars = False
    else:
        found = [k for k, v in new.items() if v] + ["byte-" + k for k, v in old.items() if v]
        raise ExtractionError(T, rel, "sanitize_message_lines has neither the character-counting nor the byte-offset shape "
                                      "(recognised parts: %s): not modelled" % (", ".join(found) or "none"))
    text = "-- GENERATED by translator/extract.py from slicec/src/parsers/comments/grammar.rs — do not edit.\nnamespace Slicec.Gen\n" \
           "/-- `sanitize_message_lines` counts the common indentation in characters (`chars().take_while(..).count()`), skips lines that\n" \
           "    consist of one all-whitespace text, turns \"no line with content\" into 0 and strips through `char_indices().nth(..)`;\n" \
           "    false = it uses the byte index `find(..).unwrap_or_default()` and `replace_range(..index, \"\")` -/\n" \
           f"def sanitizeCountsChars : Bool := {'true' if chars else 'false'}\nend Slicec.Gen\n"
    return text, 1


def gen_param_docs(repo):
    """C08: where does the converter take the documentation of parameters and return members from?
    true  = `@param` tags for parameters, `@returns` tags for return members (an unnamed `@returns` documents the return
            member of an operation that has exactly one) — the shape since the repair of D-08a;
    false = `@param` tags for both (the shape before). Anything else is not modelled."""
    T, rel = "ParamDocs", "slicec/src/slice_file_converter.rs"
    src = read(repo, rel, T)
    body = fn_body(src, "get_doc_comment_for_parameter", T, rel)
    conv = fn_body(src, "convert_operation", T, rel, r"SliceFileContentsConverter")
    # the names of the function's own parameters and locals are read from the source, not assumed
    sig = re.search(r"\bfn\s+get_doc_comment_for_parameter\s*\(\s*(\w+)\s*:\s*&\s*\w+\s*(?:,\s*(\w+)\s*:\s*bool\s*)?,?\s*\)", src)
    if not sig:
        raise ExtractionError(T, rel, "get_doc_comment_for_parameter: signature is neither `(p: &Parameter)` nor `(p: &Parameter, flag: bool)`")
    par, flag_name = re.escape(sig.group(1)), sig.group(2)
    cm = re.search(r"\blet\s+(\w+)\s*=\s*(\w+)\.comment\(\)\?\s*;", body)
    om = re.search(r"\blet\s+(\w+)\s*=\s*" + par + r"\.parent\(\)\s*;", body)
    cm1 = re.search(r"\blet\s+(\w+)\s*=\s*" + par + r"\.parent\(\)\s*\.comment\(\)\?\s*;", body)
    if cm and om and cm.group(2) == om.group(1):
        com, op = re.escape(cm.group(1)), re.escape(om.group(1))
    elif cm1:
        com, op = re.escape(cm1.group(1)), par + r"\.parent\(\)"
    else:
        raise ExtractionError(T, rel, "get_doc_comment_for_parameter: the operation's doc comment is not bound by `let c = p.parent().comment()?;` "
                                      "(or `let op = p.parent(); let c = op.comment()?;`)")
    def same_id(x):
        """`<x>.value == <parameter>.identifier()`, operands in either order"""
        return r"(?:" + x + r"\.value\s*==\s*" + par + r"\.identifier\(\)|" + par + r"\.identifier\(\)\s*==\s*" + x + r"\.value)"
    params = re.search(com + r"\s*\.\s*params\s*\.\s*iter\(\)\s*\.find\(\|(\w+)\|\s*" + same_id(r"\1\.identifier") + r"\)", body)
    if not params:
        raise ExtractionError(T, rel, "get_doc_comment_for_parameter: the `@param` lookup by identifier is gone")
    head = com + r"\s*\.\s*returns\s*\.\s*iter\(\)\s*\.find\(\|(\w+)\|\s*"
    # "the operation has exactly one return member": a local bound to that test, or the test itself where it is needed
    one_member = op + r"\.return_members\(\)\.len\(\)\s*==\s*1"
    dflt = r"(?P<d>\w+|" + one_member + r")"
    returns = None
    for pat in (head + r"match\s*&?\s*\1\.identifier(?:\.as_ref\(\))?\s*\{\s*Some\((?P<i>\w+)\)\s*=>\s*" + same_id(r"(?P=i)") + r"\s*,\s*None\s*=>\s*" + dflt + r"\s*,?\s*\}\)",
                head + r"match\s*&?\s*\1\.identifier(?:\.as_ref\(\))?\s*\{\s*None\s*=>\s*" + dflt + r"\s*,\s*Some\((?P<i>\w+)\)\s*=>\s*" + same_id(r"(?P=i)") + r"\s*,?\s*\}\)",
                head + r"\1\.identifier\.as_ref\(\)\.map_or\(\s*" + dflt + r"\s*,\s*\|(?P<i>\w+)\|\s*" + same_id(r"(?P=i)") + r"\s*\)\s*\)"):
        mm = re.search(pat, body)
        if mm:
            returns = mm.group("d")
            break
    single = re.search(r"let\s+(\w+)\s*=\s*" + one_member + r"\s*;", body)
    single_ok = returns is not None and ((single and returns == single.group(1)) or (not re.fullmatch(r"\w+", returns)))
    branch = flag_name and re.search(r"let\s+\w+\s*=\s*if\s+" + re.escape(flag_name) + r"\s*\{", body)
    calls = (re.search(r"\.parameters\(\)[^;]*?self\.convert_parameter\(\w+\s*,\s*false\)", conv, re.S),
             re.search(r"\.return_members\(\)[^;]*?self\.convert_parameter\(\w+\s*,\s*true\)", conv, re.S))
    if returns and single_ok and branch and all(calls):
        flag = True
    elif not returns and not re.search(r"\.\s*returns\b", body) and flag_name is None:
        flag = False
    else:
        raise ExtractionError(T, rel, "get_doc_comment_for_parameter / convert_operation have neither the `@returns`-aware nor the "
                                      "`@param`-only shape: not modelled")
    text = "-- GENERATED by translator/extract.py from slicec/src/slice_file_converter.rs — do not edit.\nnamespace Slicec.Gen\n" \
           "/-- return members take their documentation from the `@returns` tags (by identifier; an unnamed tag when the operation has\n" \
           "    one return member), parameters from the `@param` tags; false = both from the `@param` tags -/\n" \
           f"def returnDocsFromReturnsTags : Bool := {'true' if flag else 'false'}\nend Slicec.Gen\n"
    return text, 1


TABLES = {
    "ParamDocs": gen_param_docs,
    "CommentSanitize": gen_comment_sanitize,
    "VisitorReach": gen_visitor_reach,
    "EncoderShapes": gen_encoder_shapes,
    "CompilerSchema": gen_compiler_schema,
    "CommentKeywords": gen_comment_keywords,
    "Lints": gen_lints,
    "ResolveKinds": gen_resolve_kinds,
    "DriverShape": gen_driver_shape,
    "Preproc": gen_preproc_tables,
    "EmitFormat": gen_emit_format,
    "PluginSpec": gen_plugin_spec,
    "VarintArms": gen_varint_arms,
    "CodecPanics": gen_codec_panics,
    "Keywords": gen_keywords,
    "HashUses": gen_hash_uses,
    "PanicSites": gen_panic_sites,
}

sys.path.insert(0, os.path.dirname(os.path.abspath(__file__)))
import tables_c04  # noqa: E402
TABLES.update(tables_c04.tables(globals()))
import tables_c02  # noqa: E402
TABLES.update(tables_c02.tables(globals()))


def main():
    repo, gen_dir = sys.argv[1], sys.argv[2]
    args = sys.argv[3:]
    if args and args[0] == "--others":            # every table except the named ones
        wanted = [t for t in TABLES if t not in args[1:]]
    else:
        wanted = args or list(TABLES)
    os.makedirs(gen_dir, exist_ok=True)
    failed = False
    for name in wanted:
        try:
            text, rows = TABLES[name](repo)
        except Exception as e:                     # noqa: BLE001 - an extractor that crashes has not extracted
            print(f"EXTRACTION-FAILED {name} {e}")
            failed = True
            continue
        path = os.path.join(gen_dir, name + ".lean")
        old = open(path, encoding="utf-8").read() if os.path.exists(path) else None
        if old != text:  # keep mtime when unchanged so lake does not rebuild
            open(path, "w", encoding="utf-8").write(text)
        print(f"TABLE {name} rows={rows} sha={hashlib.sha1(text.encode()).hexdigest()[:12]} {'changed' if old != text else 'unchanged'}")
    sys.exit(1 if failed else 0)


if __name__ == "__main__":
    main()
