"""Name-agnostic comparison of small Rust fragments (used by extract.py and tables_c04.py).

A local variable's name, the layout of a statement and whether a value is first bound to a single-use local carry no meaning, so an
extractor that has to recognise "this function is still `if !self.diagnostics.has_errors() { function(self); }`" must not compare
source text. `canon(fragment, params)` turns a fragment (comments already stripped) into a canonical string:

  1. tokens, without white space;
  2. struct field shorthand `S { a }` is written out as `S { a: a }`;
  3. an immutable `let x = EXPR;` whose only use is a delimited operand of the statement that follows, with nothing evaluated in
     between, is inlined (`let n = !s.is_empty(); if n {` becomes `if !s.is_empty() {`);
  4. every bound name -- function parameters (given by the caller), `let` / `if let` / `while let` / `for` patterns, closure
     parameters, match-arm patterns, parameters of nested `fn`s -- is replaced by `$<n>`, numbered by binding occurrence in textual
     order; a use refers to the textually latest binding of its name; names captured inside format strings (`"{code}"`) follow.

Two fragments with the same canonical string differ only in local names, layout, comments, field shorthand and such single-use lets.
What is *expected* is written in the extractor as Rust source as well and canonicalised by the same function (`same`, `match`),
so nothing here depends on a particular numbering.
"""
import re

TOKEN = re.compile(
    r"""\s+|"(?:[^"\\]|\\.)*"|'(?:\\u\{[0-9a-fA-F]+\}|\\x[0-9a-fA-F]{2}|\\.|[^'\\\n])'|'[A-Za-z_]\w*|[A-Za-z_]\w*(?:!(?!=))?"""
    r"""|\d\w*(?:\.\d\w*)?|::|->|=>|==|!=|<=|>=|&&|\|\||\.\.=|\.\.|<<=|>>=|[-+*/%^&|]=|.""", re.S)

KEYWORDS = {"as", "break", "const", "continue", "crate", "else", "enum", "extern", "false", "fn", "for", "if", "impl", "in", "let",
            "loop", "match", "mod", "move", "mut", "pub", "ref", "return", "self", "static", "struct", "super", "trait", "true",
            "type", "unsafe", "use", "where", "while", "dyn", "_"}
OPEN, CLOSE = "([{", ")]}"


def tokens(text):
    return [t for t in TOKEN.findall(text) if not t.isspace()]


def is_name(tok):
    return re.fullmatch(r"[a-z_][a-z0-9_]*", tok) is not None and tok not in KEYWORDS


def _struct_braces(t):
    """indices of `{` that open a struct literal / struct pattern (the token in front is a type name)"""
    return {i for i, tok in enumerate(t) if tok == "{" and i > 0 and re.fullmatch(r"[A-Z]\w*", t[i - 1])}


def _matching(t, i):
    """index of the bracket matching the opening bracket at i (len(t) if unbalanced)"""
    depth = 0
    for j in range(i, len(t)):
        if t[j] in OPEN:
            depth += 1
        elif t[j] in CLOSE:
            depth -= 1
            if depth == 0:
                return j
    return len(t)


def _matching_back(t, j):
    """index of the bracket matching the closing bracket at j (-1 if unbalanced)"""
    depth = 0
    for k in range(j, -1, -1):
        if t[k] in CLOSE:
            depth += 1
        elif t[k] in OPEN:
            depth -= 1
            if depth == 0:
                return k
    return -1


def expand_shorthand(t):
    out = list(t)
    marks = []
    for b in _struct_braces(t):
        e = _matching(t, b)
        depth = 0
        for k in range(b, e):
            if t[k] in OPEN:
                depth += 1
            elif t[k] in CLOSE:
                depth -= 1
            elif depth == 1 and is_name(t[k]) and t[k - 1] in ("{", ",") and k + 1 <= e and t[k + 1] in (",", "}"):
                marks.append(k)
    for k in sorted(marks, reverse=True):
        out[k:k + 1] = [t[k], ":", t[k]]
    return out


def _is_use(t, k, name):
    """t[k] == name used as a value (not a field / method / path segment / struct field label)"""
    if t[k] != name:
        return False
    if k > 0 and t[k - 1] in (".", "::"):
        return False
    if k + 1 < len(t) and t[k + 1] == "::":
        return False
    if k + 1 < len(t) and t[k + 1] == ":" and k > 0 and t[k - 1] in ("{", ","):
        return False            # `S { field: value }`
    return True


def _format_captures(tok):
    return re.findall(r"(?<!\{)\{([A-Za-z_]\w*)(?::[^{}]*)?\}(?!\})", tok) if tok.startswith('"') else []


def inline_single_use_lets(t):
    t = list(t)
    changed = True
    while changed:
        changed = False
        for i, tok in enumerate(t):
            if tok != "let" or i + 2 >= len(t) or not is_name(t[i + 1]) or (i > 0 and t[i - 1] in ("if", "while")):
                continue
            name = t[i + 1]
            j = i + 2
            if t[j] == ":":                       # type ascription: skip to the `=` at depth 0
                depth = 0
                while j < len(t) and not (t[j] == "=" and depth == 0):
                    depth += (t[j] in OPEN or t[j] == "<") - (t[j] in CLOSE or t[j] == ">")
                    j += 1
            if j >= len(t) or t[j] != "=":
                continue
            depth, e = 0, j + 1
            while e < len(t) and not (t[e] == ";" and depth == 0):
                depth += (t[e] in OPEN) - (t[e] in CLOSE)
                e += 1
            if e >= len(t):
                continue
            expr = t[j + 1:e]
            if not expr or "{" in expr or "|" in expr or "||" in expr or "let" in expr:
                continue
            uses = [k for k in range(e + 1, len(t)) if _is_use(t, k, name)]
            rebound = any(t[k] == name and t[k - 1] in ("let", "mut") for k in range(e + 1, len(t)))
            captured = any(name in _format_captures(x) for x in t[e + 1:])
            assigned = any(t[k] == name and k + 1 < len(t) and re.fullmatch(r"[-+*/%^&|]?=|<<=|>>=", t[k + 1]) and t[k - 1] != "let"
                           for k in range(e + 1, len(t)))
            if len(uses) != 1 or rebound or captured or assigned:
                continue
            u = uses[0]
            between = t[e + 1:u]
            if any(x in (")", ";", "?", "=>", "|", "||", "}") for x in between):
                continue
            if t[u - 1] not in ("(", ",", "if", "=", ":", "return", "&", "{", ";") or u + 1 >= len(t) or t[u + 1] not in (")", ",", "{", ";", "}"):
                continue
            t = t[:i] + t[e + 1:u] + expr + t[u + 1:]
            changed = True
            break
    return t


def _pattern_binders(t, a, b, stop_at_colon):
    """indices in [a, b) of names bound by the pattern t[a:b]; with stop_at_colon the pattern ends at the first depth-0 `:`"""
    out, depth = [], 0
    sb = _struct_braces(t)
    kinds = []
    for k in range(a, b):
        tok = t[k]
        if tok in OPEN:
            kinds.append("struct" if k in sb else "other")
            depth += 1
        elif tok in CLOSE:
            if kinds:
                kinds.pop()
            depth -= 1
        elif tok == ":" and depth == 0 and stop_at_colon:
            break
        elif is_name(tok):
            prev, nxt = (t[k - 1] if k > 0 else ""), (t[k + 1] if k + 1 < len(t) else "")
            if prev in ("::", ".") or nxt in ("::", "(", "{") or tok.endswith("!"):
                continue
            if nxt == ":" and kinds and kinds[-1] == "struct":
                continue        # field label of a struct pattern
            if prev == "@" or nxt == "..=" or prev == "..=":
                pass
            out.append(k)
    return out


def _split_params(t, a, b):
    """[(start, end)] of the comma-separated parameters in t[a:b]"""
    out, depth, s = [], 0, a
    for k in range(a, b):
        if t[k] in OPEN or t[k] == "<":
            depth += 1
        elif t[k] in CLOSE or (t[k] == ">" and t[k - 1] != "-" and t[k - 1] != "="):
            depth -= 1
        elif t[k] == "," and depth == 0:
            out.append((s, k))
            s = k + 1
    if s < b:
        out.append((s, b))
    return out


def binders(t):
    """sorted indices of binding occurrences"""
    out = set()
    n = len(t)
    for i, tok in enumerate(t):
        if tok == "let":
            depth, j = 0, i + 1
            while j < n and not (depth == 0 and t[j] in ("=", ";", ":")):
                depth += (t[j] in OPEN) - (t[j] in CLOSE)
                j += 1
            out.update(_pattern_binders(t, i + 1, j, True))
        elif tok == "for" and not (i > 0 and t[i - 1] == "impl"):
            depth, j = 0, i + 1
            while j < n and not (depth == 0 and t[j] == "in"):
                depth += (t[j] in OPEN) - (t[j] in CLOSE)
                j += 1
            if j < n:
                out.update(_pattern_binders(t, i + 1, j, False))
        elif tok == "|" and (i == 0 or t[i - 1] in ("(", ",", "=", "move", "{", "=>", "return", ";", ":")):
            j = i + 1
            depth = 0
            while j < n and not (t[j] == "|" and depth == 0):
                depth += (t[j] in OPEN) - (t[j] in CLOSE)
                j += 1
            for a, b in _split_params(t, i + 1, j):
                out.update(_pattern_binders(t, a, b, True))
        elif tok == "=>":
            j = i - 1
            while j >= 0:
                if t[j] in CLOSE:
                    m = _matching_back(t, j)
                    if t[j] == "}" and m > 0 and t[m - 1] == "=>":
                        break                      # the block of the previous arm
                    j = m - 1
                    continue
                if t[j] in OPEN or t[j] in (",", ";", "=>"):
                    break
                j -= 1
            a = j + 1
            g = a
            depth = 0
            while g < i and not (t[g] == "if" and depth == 0):
                depth += (t[g] in OPEN) - (t[g] in CLOSE)
                g += 1
            out.update(_pattern_binders(t, a, g, False))
        elif tok == "fn" and i + 1 < n and re.fullmatch(r"[A-Za-z_]\w*", t[i + 1]):
            j = i + 2
            if j < n and t[j] == "<":
                depth = 0
                while j < n:
                    if t[j] == "<":
                        depth += 1
                    elif t[j] == ">" and t[j - 1] != "-":
                        depth -= 1
                        if depth == 0:
                            j += 1
                            break
                    j += 1
            if j < n and t[j] == "(":
                e = _matching(t, j)
                for a, b in _split_params(t, j + 1, e):
                    out.update(_pattern_binders(t, a, b, True))
    return sorted(out)


def param_names(params_text):
    """names bound by a parameter list `a: T, mut b: U, S { c, d }: &S` (without the parentheses), in order"""
    t = tokens(params_text)
    t = expand_shorthand(t)
    names = []
    for a, b in _split_params(t, 0, len(t)):
        for k in _pattern_binders(t, a, b, True):
            if t[k] not in names:
                names.append(t[k])
    return names


def canon(text, params=()):
    t = inline_single_use_lets(expand_shorthand(tokens(text)))
    bind = set(binders(t))
    env = {}
    counter = 0
    for p in params:
        counter += 1
        env[p] = counter
    out = []
    for k, tok in enumerate(t):
        if k in bind:
            counter += 1
            env[tok] = counter
            out.append("$%d" % counter)
        elif tok in env and _is_use(t, k, tok):
            out.append("$%d" % env[tok])
        elif tok.startswith('"') and env:
            out.append(re.sub(r"(?<!\{)\{([A-Za-z_]\w*)((?::[^{}]*)?)\}(?!\})",
                              lambda m: "{$%d%s}" % (env[m.group(1)], m.group(2)) if m.group(1) in env else m.group(0), tok))
        else:
            out.append(tok)
    # separate tokens that would otherwise merge into another token
    s = []
    for tok in out:
        if s and re.match(r"[\w$]", tok) and re.search(r"[\w$]$", s[-1]):
            s.append(" ")
        s.append(tok)
    return "".join(s)


def same(actual, expected, params_actual=(), params_expected=()):
    return canon(actual, params_actual) == canon(expected, params_expected)


def match(actual, expected, params_actual=(), params_expected=()):
    """like `same`, but `expected` may contain the markers HOLE1, HOLE2 .. (as identifiers or inside string literals), each standing
    for one word; returns the tuple of the words found (a repeated marker must repeat its word), or None"""
    ca, ce = canon(actual, params_actual), canon(expected, params_expected)
    seen = set()

    def hole(m):
        name = "h" + m.group(1)
        if name in seen:
            return "(?P=%s)" % name
        seen.add(name)
        return r"(?P<%s>[\w:]*)" % name
    m = re.fullmatch(re.sub(r"HOLE(\d+)", hole, re.escape(ce)), ca)
    if not m:
        return None
    return tuple(m.group(k) for k in sorted(m.groupdict(), key=lambda x: int(x[1:])))
