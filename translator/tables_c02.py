"""Translator table of property C02 (parser half): the terminals and productions of the Slice grammar
(slicec/src/parsers/slice/grammar.lalrpop) as plain Lean data, `Gen/SliceGrammar.lean`.

Registered from extract.py with
    import tables_c02; TABLES.update(tables_c02.tables(globals()))
(helpers ExtractionError / read / block_after are taken from extract.py's namespace).

An alternative is normalised to its list of grammar symbols: location markers `@L` / `@R` and bindings
(`<x: Sym>`, `<mut x: Sym>`, `<Sym>`) are removed, macro applications are kept (`UndelimitedList<Field>`), groups are
kept as one symbol with their repetition suffix (`("::" identifier)*`, `(":" TypeRef)?`), and the action is reduced to the
first helper function it calls (`construct_struct`, `parse_tag_value`, …) or, failing that, the first `Type::Variant`
path it mentions. The model's own production list (Model/SliceParser.lean `productions`) is proved equal to this table
(Props/C02.lean `grammar_table_matches`), so a production that is added, removed, reordered or re-shaped re-opens the proof.
"""
import re


def tables(ns):
    ExtractionError, read, block_after = ns["ExtractionError"], ns["read"], ns["block_after"]
    T = "SliceGrammar"
    rel = "slicec/src/parsers/slice/grammar.lalrpop"

    def q(x):
        return '"' + x.replace("\\", "\\\\").replace('"', '\\"') + '"'

    TOKEN = re.compile(r'"[^"]*"|@[LR]\b|[A-Za-z_]\w*|[<>()*?+:]')

    def tokenize(text, where):
        toks, pos = [], 0
        for m in TOKEN.finditer(text):
            if text[pos:m.start()].strip():
                raise ExtractionError(T, rel, f"{where}: `{text[pos:m.start()].strip()}` not understood in `{' '.join(text.split())}`")
            toks.append(m.group(0))
            pos = m.end()
        if text[pos:].strip():
            raise ExtractionError(T, rel, f"{where}: `{text[pos:].strip()}` not understood")
        return toks

    def parse_symbols(toks, where):
        """recursive descent over the token list of one alternative; returns the normalised symbols"""
        pos = 0

        def fail(why):
            raise ExtractionError(T, rel, f"{where}: {why} in `{' '.join(toks)}`")

        def postfix(sym):
            nonlocal pos
            while pos < len(toks) and toks[pos] in "*?+":
                sym += toks[pos]
                pos += 1
            return sym

        def symbol():
            """one symbol, or None for a location marker"""
            nonlocal pos
            if pos >= len(toks):
                fail("symbol expected")
            t = toks[pos]
            if t in ("@L", "@R"):
                pos += 1
                return None
            if t.startswith('"'):
                pos += 1
                return postfix(t)
            if t == "(":
                pos += 1
                inner = []
                while pos < len(toks) and toks[pos] != ")":
                    s = symbol()
                    if s is not None:
                        inner.append(s)
                if pos >= len(toks):
                    fail("unbalanced group")
                pos += 1
                if not inner:
                    # a group of location markers only: `(<@L>)` does not occur; be strict
                    fail("empty group")
                return postfix("(" + " ".join(inner) + ")")
            if t == "<":
                pos += 1
                if pos < len(toks) and toks[pos] == ">":          # `<>` only occurs in actions
                    fail("`<>` among the symbols")
                # optional binding `mut x :` / `x :`
                save = pos
                if pos < len(toks) and toks[pos] == "mut":
                    pos += 1
                if pos + 1 < len(toks) and re.fullmatch(r"[a-z_]\w*", toks[pos]) and toks[pos + 1] == ":":
                    pos += 2
                else:
                    pos = save
                s = symbol()
                if pos >= len(toks) or toks[pos] != ">":
                    fail("`>` expected after a bound symbol")
                pos += 1
                return s
            if re.fullmatch(r"[A-Za-z_]\w*", t):
                pos += 1
                if t[0].isupper() and pos < len(toks) and toks[pos] == "<":      # macro application
                    pos += 1
                    arg = symbol()
                    if arg is None or pos >= len(toks) or toks[pos] != ">":
                        fail("macro argument not understood")
                    pos += 1
                    t = f"{t}<{arg}>"
                return postfix(t)
            fail(f"unexpected `{t}`")

        out = []
        while pos < len(toks):
            s = symbol()
            if s is not None:
                out.append(s)
        return out

    def split_alternatives(body, name):
        """[(symbols text, action text)] of `{ a => x, b => { … }, }`; the symbols of an alternative may be empty"""
        alts, i, n = [], 0, len(body)
        while i < n:
            while i < n and body[i] in " \t\r\n,":
                i += 1
            if i >= n:
                break
            depth, j = 0, i
            while j < n:
                ch = body[j]
                if ch == '"':
                    j = body.index('"', j + 1)
                elif ch in "(<":
                    depth += 1
                elif ch in ")>" and not body.startswith("=>", j - 1):
                    depth -= 1
                elif body.startswith("=>", j) and depth <= 0:
                    break
                j += 1
            if j >= n:
                raise ExtractionError(T, rel, f"{name}: alternative without `=>`: `{body[i:i + 40].strip()}`")
            syms = body[i:j]
            k = j + 2
            while k < n and body[k] in " \t\r\n":
                k += 1
            if k < n and body[k] == "{":
                blk = block_after(body, k)
                if blk is None:
                    raise ExtractionError(T, rel, f"{name}: unbalanced action block")
                action = blk
                j = k + len(blk) + 2
            else:
                depth, e = 0, k
                while e < n:
                    ch = body[e]
                    if ch in "([{":
                        depth += 1
                    elif ch in ")]}":
                        depth -= 1
                    elif ch == "," and depth == 0:
                        break
                    e += 1
                action = body[k:e]
                j = e
            alts.append((syms, action))
            i = j
        return alts

    def action_head(action):
        for m in re.finditer(r"(?<![\w.:])([a-z_]\w*)\s*\(", action):
            if m.group(1) not in ("if", "match", "let", "vec", "format", "while", "for", "return"):
                return m.group(1)
        c = re.search(r"\b([A-Z]\w*::[A-Z]\w*)\b", action)
        return c.group(1) if c else ""

    def gen_slice_grammar(repo):
        g = read(repo, rel, T)
        me = re.search(r"\bextern\s*\{", g)
        if not me:
            raise ExtractionError(T, rel, "`extern {` block not found")
        ext = block_after(g, me.end() - 1)
        mt = re.search(r"enum\s+TokenKind[^{]*", ext or "")
        if not mt:
            raise ExtractionError(T, rel, "`enum TokenKind` not found in the extern block")
        enum_body = block_after(ext, mt.end())
        terms = re.findall(r'("[^"]*"|[a-z_]\w*)\s*=>\s*TokenKind::(\w+)', enum_body or "")
        if not terms or len(terms) != len(re.findall(r"=>", enum_body)):
            raise ExtractionError(T, rel, "terminal declarations not understood")
        rest = g[me.end() + len(ext) + 1:]
        prods, pos = [], 0
        header = re.compile(r"(?:pub\s+)?\b([A-Z]\w*(?:<\s*[A-Z]\w*\s*>)?)\s*(?::\s*[^={;]+?)?\s*=(?!>)\s*")
        while True:
            mh = header.search(rest, pos)
            if not mh:
                break
            if rest[pos:mh.start()].strip():
                raise ExtractionError(T, rel, f"text between productions not understood: `{rest[pos:mh.start()].strip()[:40]}`")
            name = re.sub(r"\s+", "", mh.group(1))
            k = mh.end()
            if k < len(rest) and rest[k] == "{":
                blk = block_after(rest, k)
                if blk is None:
                    raise ExtractionError(T, rel, f"{name}: unbalanced production block")
                alts = split_alternatives(blk, name)
                pos = k + len(blk) + 2
            else:
                e = rest.find(";", k)
                if e < 0:
                    raise ExtractionError(T, rel, f"{name}: `;` not found")
                alts = [(rest[k:e], "")]
                pos = e + 1
            if not alts:
                raise ExtractionError(T, rel, f"{name}: no alternative found")
            rows = [(parse_symbols(tokenize(syms, name), name), action_head(action)) for syms, action in alts]
            prods.append((name, rows))
        if re.sub(r"\s+", "", rest[pos:]):
            raise ExtractionError(T, rel, f"text after the last production not understood: {rest[pos:].strip()[:40]}")
        names = [n for n, _ in prods]
        for need in ("SliceFile", "Module", "Definition", "Struct", "Field", "Interface", "Operation", "Parameter", "ReturnType", "Enum",
                     "Enumerator", "CustomType", "TypeAlias", "TypeRef", "TypeRefDefinition", "Attribute", "Prelude", "UndelimitedList<T>"):
            if need not in names:
                raise ExtractionError(T, rel, f"production {need} not found")
        # every symbol must be a declared terminal, a production, a macro application of a production, or a group of those
        known = set(names) | {t for t, _ in terms}
        macros = {n.split("<")[0] for n in names if "<" in n}

        def check(sym, where):
            s = sym.rstrip("*?+") if not sym.startswith('"') else sym[:sym.rindex('"') + 1]
            if s.startswith('"'):
                if s not in known:
                    raise ExtractionError(T, rel, f"{where}: undeclared terminal `{s}`")
            elif s.startswith("("):
                for part in parse_symbols(tokenize(s[1:-1], where), where):
                    check(part, where)
            elif "<" in s:
                head, arg = s.split("<", 1)
                if head not in macros:
                    raise ExtractionError(T, rel, f"{where}: unknown macro `{head}`")
                check(arg[:-1], where)
            elif s not in known and s != "T":
                raise ExtractionError(T, rel, f"{where}: unknown symbol `{s}`")
        for n, rows in prods:
            for syms, _ in rows:
                for s in syms:
                    check(s, n)

        def pairs(l):
            return "[" + ", ".join(f"({q(a)}, {q(b)})" for a, b in l) + "]"

        def alt(a):
            syms, head = a
            return "([" + ", ".join(q(x) for x in syms) + "], " + q(head) + ")"

        prod_lines = ",\n".join(f"  ({q(n)}, [" + ", ".join(alt(a) for a in rows) + "])" for n, rows in prods)
        text = f"""-- GENERATED by translator/extract.py (tables_c02.py) from slicec/src/parsers/slice/grammar.lalrpop — do not edit.
namespace Slicec.Gen

/-- `extern {{ enum TokenKind {{ terminal => TokenKind::X }} }}` of grammar.lalrpop: (terminal as written in the rules, token kind) -/
def sliceTerminals : List (String × String) := {pairs(terms)}

/-- productions of grammar.lalrpop in source order: (nonterminal, alternatives); an alternative is its symbol list
    (location markers and bindings removed, macro applications and groups kept as one symbol with their repetition
    suffix) and the helper function its action calls first (or the first `Type::Variant` path, or "") -/
def sliceGrammar : List (String × List (List String × String)) := [
{prod_lines}
]

end Slicec.Gen
"""
        return text, len(terms) + sum(len(r) for _, r in prods)

    return {"SliceGrammar": gen_slice_grammar}
